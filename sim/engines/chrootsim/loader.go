package chrootsim

import (
	"bytes"
	"encoding/json"
	"fmt"
	"os"
	"path"
	"path/filepath"
	"runtime/debug"
	"strings"
	"sync"
	"syscall"

	"github.com/anz-bank/golden-retriever/reader/remotefs"
	"github.com/sirupsen/logrus"
	"google.golang.org/protobuf/encoding/prototext"

	"github.com/anz-bank/sysl/pkg/loader"
	"github.com/anz-bank/sysl/pkg/parse"

	"verif/sim/core"
	"verif/sim/simfs"
)

// LCase is one driver-2 workload: a project tree, a module argument and import
// statements spelled in hostile ways.
type LCase struct {
	Seed     uint64            `json:"seed"`
	Root     string            `json:"root"`      // real project root on the disk
	Explicit bool              `json:"explicit"`  // root passed explicitly (else discovered through a marker)
	Marker   string            `json:"marker"`    // .sysl | .git | "" (none: module directory becomes the root)
	Module   string            `json:"module"`    // module argument
	Files    map[string]string `json:"files"`     // absolute path -> content
	Faults   map[string]string `json:"faults"`    // absolute path -> errno on open
	MaxDepth int               `json:"max_depth"` // import depth limit
	Hostlike int               `json:"hostlike_imports,omitempty"`
	// RootSpell: how an explicit root is written on the command line ("" = as Root)
	RootSpell string `json:"root_spelling,omitempty"`
	// ExtRef != "": the module imports a Swagger document (api/spec.yaml under the root)
	// one of whose definitions is a $ref to this other file; RefInside says whether that
	// path stays inside the root.
	// Stdin: driver cli hands the module over on standard input instead of naming it
	Stdin bool `json:"module_on_stdin,omitempty"`
	// PinFile: the project has .sysl/modules.yaml
	PinFile   bool   `json:"pin_file,omitempty"`
	ExtRef    string `json:"external_ref,omitempty"`
	RefInside bool   `json:"external_ref_inside,omitempty"`
}

// fileCanary is the real-disk target of the file:// reference; it is written for the run of
// such a case and removed afterwards.
var fileCanary = filepath.Join(os.TempDir(), "verif-c18-canary", "secret.yaml")

// GenExtRefCase: a foreign specification that refers to another file.  The referenced file
// is read "on behalf of a specification" like an import is.
func GenExtRefCase(seed uint64) *LCase {
	r := core.NewRand(seed)
	c := &LCase{Seed: seed, Files: map[string]string{}, Faults: map[string]string{}, Explicit: true}
	c.Root = []string{"/proj", "/w/proj"}[r.Intn(2)]
	type ref struct {
		spell  string
		inside bool
	}
	refs := []ref{
		{"../../secret.yaml", false},        // from <root>/api: one level above the root
		{"../../../etc/secret.yaml", false}, // further up and down again
		{"/secret/secret.yaml", false},      // absolute
		{"file://" + fileCanary, false},     // an absolute file URI (its target exists on the real disk for the run)
		{"../defs/common.yaml", true},       // a sibling directory inside the root
		{"common.yaml", true},               // next to the specification
		{"./sub/../common.yaml", true},
	}
	x := refs[r.Intn(len(refs))]
	c.ExtRef, c.RefInside = x.spell, x.inside
	def := func(name, field string) string {
		return "swagger: \"2.0\"\ninfo:\n  title: Defs\n  version: \"1\"\npaths: {}\ndefinitions:\n  " + name + ":\n    type: object\n    properties:\n      " + field + ":\n        type: string\n"
	}
	in := func(p string) string { return path.Join(c.Root, p) }
	c.Files[in("main.sysl")] = "import api/spec.yaml as Foo :: Api ~swagger\n\nApp:\n    !type T:\n        x <: int\n"
	c.Files[in("api/spec.yaml")] = "swagger: \"2.0\"\ninfo:\n  title: T\n  version: \"1\"\npaths: {}\ndefinitions:\n  Local:\n    type: object\n    properties:\n      s:\n        $ref: \"" +
		x.spell + "#/definitions/Other\"\n"
	c.Files[in("api/common.yaml")] = def("Other", "common_field_name")
	c.Files[in("defs/common.yaml")] = def("Other", "common_field_name")
	for _, p := range []string{"/secret.yaml", "/w/secret.yaml", "/etc/secret.yaml", "/w/etc/secret.yaml", "/secret/secret.yaml", "/api/secret.yaml"} {
		if !strings.HasPrefix(p, c.Root+"/") {
			c.Files[p] = def("Other", "leaked_field_name")
		}
	}
	c.Module = "main.sysl"
	return c
}

type lfile struct {
	abs     string
	app     string
	imports []string
}

var isRemote = (&remotefs.RemoteFs{}).IsRemote

// GenLCase draws a driver-2 workload.
func GenLCase(seed uint64) *LCase {
	r := core.NewRand(seed)
	c := &LCase{Seed: seed, Files: map[string]string{}, Faults: map[string]string{}}
	c.Root = []string{"/proj", "/w/proj", "/w/a.b/proj", "/"}[r.Intn(4)]
	c.Explicit = r.Chance(0.5)
	if !c.Explicit {
		c.Marker = []string{".sysl", ".git", ".sysl", ""}[r.Intn(4)]
	}
	in := func(p string) string { return path.Join(c.Root, p) }
	// inside files, at different depths
	inside := []string{"main.sysl", "lib/a.sysl", "lib/deep/b.sysl", "lib/deep/er/c.sysl", "x.sysl"}
	if r.Chance(0.4) {
		// a directory inside the root whose name looks like a host: joined with two more
		// segments, a plain relative path looks like a remote resource to the reader
		inside = append(inside, "api.v1/team/svc/m.sysl", "api.v1/team/svc/n.sysl", "api.v1/team/o.sysl")
	}
	outside := []string{"/secret/s.sysl", "/w/other/o.sysl", "/w/s.sysl", "/o.sysl", "/etc/e.sysl", "/projx/p.sysl", "/w/projx/p.sysl",
		"/Proj/p.sysl", "/w/Proj/p.sysl", "/W/proj/p.sysl", "/w/a.b/Proj/p.sysl"} // incl. case variants of the roots
	var files []*lfile
	for i, p := range inside {
		files = append(files, &lfile{abs: in(p), app: fmt.Sprintf("In%d", i)})
	}
	nIn := len(files)
	for i, p := range outside {
		if c.Root == "/" {
			break // nothing is outside "/"
		}
		if strings.HasPrefix(p, c.Root+"/") {
			continue
		}
		files = append(files, &lfile{abs: p, app: fmt.Sprintf("Out%d", i)})
	}
	// hostile import spellings: from a random inside file to a random file (inside or
	// outside), relative with ".." chains, rooted, with dot segments / detours
	// module first, so that half of the imports can be attached to it (always reached)
	mod := files[r.Intn(nIn)]
	if r.Chance(0.2) && len(files) > nIn {
		mod = files[nIn+r.Intn(len(files)-nIn)] // a module outside the root
	}
	var siblings []*lfile // directories sharing the root's name as a prefix: /projx, /w/projx
	for _, f := range files[nIn:] {
		if c.Root != "/" && (strings.HasPrefix(f.abs, c.Root) || strings.HasPrefix(strings.ToLower(f.abs), strings.ToLower(c.Root)+"/")) {
			siblings = append(siblings, f) // prefix siblings and case variants of the root
		}
	}
	hostlike := 0
	for k := 0; k < r.Range(1, 6); k++ {
		from := files[r.Intn(nIn)]
		if r.Chance(0.5) {
			from = mod
		}
		to := files[r.Intn(len(files))]
		if len(siblings) > 0 && r.Chance(0.25) {
			to = siblings[r.Intn(len(siblings))]
		}
		sp := spellTo(r, c.Root, from.abs, to.abs)
		if sp == "" {
			continue
		}
		if isRemote(sp) || isRemote(strings.TrimPrefix(sp, "/")) {
			// a local import that looks like host/owner/repo/file: sysl's own rule is that only a
			// leading // is remote, and its listener guards such names with ./ before reading
			hostlike++
		}
		from.imports = append(from.imports, sp)
	}
	// compiled modules (a model in text-proto form) inside and outside the root: module
	// arguments with these extensions take their own path through the command line
	files = append(files, &lfile{abs: in("lib/compiled.textpb"), app: "InPb"})
	if c.Root != "/" {
		files = append(files, &lfile{abs: "/secret/compiled.textpb", app: "OutPb"})
	}
	for _, f := range files {
		if strings.HasSuffix(f.abs, ".textpb") {
			c.Files[f.abs] = fmt.Sprintf("apps: {\n key: \"%s\"\n value: {\n  name: {\n   part: \"%s\"\n  }\n }\n}\n", f.app, f.app)
			continue
		}
		var b strings.Builder
		for _, im := range f.imports {
			b.WriteString("import " + im + "\n")
		}
		fmt.Fprintf(&b, "%s:\n    !type T:\n        x <: int\n", f.app)
		c.Files[f.abs] = b.String()
	}
	if c.Marker != "" {
		c.Files[path.Join(c.Root, c.Marker, "keep")] = ""
	}
	if (c.Marker == ".sysl" || c.Explicit) && r.Chance(0.3) {
		// a pin file of remote imports in the project's .sysl directory (no pins)
		c.Files[path.Join(c.Root, ".sysl", "modules.yaml")] = "imports: []\n"
		c.PinFile = true
	}
	// module argument
	if r.Chance(0.15) {
		mod = files[len(files)-1-r.Intn(min(2, len(files)))] // one of the compiled modules
	}
	if c.Explicit {
		rel := strings.TrimPrefix(strings.TrimPrefix(mod.abs, c.Root), "/")
		if !strings.HasPrefix(mod.abs, strings.TrimSuffix(c.Root, "/")+"/") {
			rel = relTo(c.Root, mod.abs)
		}
		switch r.Intn(5) {
		case 0:
			rel = "/" + rel
		case 1:
			rel = "./" + rel
		case 2:
			rel = "lib/../" + rel
		case 3:
			if strings.HasPrefix(rel, "../") {
				// written with backslashes: one odd file name inside the root, not a way out
				rel = strings.ReplaceAll(rel, "/", "\\")
			}
		}
		c.Module = rel
	} else {
		c.Module = mod.abs // discovery needs an absolute module path (cwd is not simulated)
	}
	if r.Chance(0.3) {
		// disk errors on in-root files: this is when fallback logic, if any, would run
		for k := 0; k < r.Range(1, 2); k++ {
			f := files[r.Intn(nIn)]
			c.Faults[f.abs] = []string{"ENOENT", "EIO", "EACCES"}[r.Intn(3)]
		}
	}
	if r.Chance(0.2) {
		c.MaxDepth = r.Range(1, 3)
	}
	c.Hostlike = hostlike
	if c.Explicit && r.Chance(0.25) {
		c.RootSpell = SpellRoot(r, c.Root)
	}
	return c
}

// relTo: lexical relative path from directory dir to target (both absolute).
func relTo(dir, target string) string {
	ds := strings.Split(strings.Trim(dir, "/"), "/")
	if dir == "/" {
		ds = nil
	}
	ts := strings.Split(strings.Trim(target, "/"), "/")
	k := 0
	for k < len(ds) && k < len(ts)-1 && ds[k] == ts[k] {
		k++
	}
	var out []string
	for i := k; i < len(ds); i++ {
		out = append(out, "..")
	}
	return strings.Join(append(out, ts[k:]...), "/")
}

func spellTo(r *core.Rand, root, from, to string) string {
	rel := relTo(path.Dir(from), to)
	switch r.Intn(7) {
	case 0: // rooted at the project root
		return "/" + relTo(root, to)
	case 1: // more ".." than needed (the root of "/" absorbs them lexically)
		return "../../../../../../.." + to
	case 2:
		return "./" + rel
	case 3: // detour through a non-existent directory
		return "nope/../" + rel
	case 4: // the absolute path of the target, spelled as a rooted import
		return to
	case 5: // doubled slash / dot segment
		if k := strings.Index(rel, "/"); k > 0 {
			return rel[:k] + "/./" + rel[k+1:]
		}
		return rel
	}
	return rel
}

// LResult of a driver-2 run.
type LResult struct {
	OK      bool
	Err     string
	Panic   string
	Apps    []string
	Escapes []string
	Ops     int
	Model   string // text form of the compiled model (external-reference cases only)
}

var logOnce sync.Once

// RunLCase runs the real loader + parser over the simulated disk.  The invariant is armed
// for the whole run; the only calls allowed outside the expected root are the Stat calls
// of marker discovery (<ancestor of the module>/.sysl and /.git), which happen before a
// root is in force.
func RunLCase(c *LCase, cnt core.Counters) (*LResult, []V) {
	return RunLCaseExec(c, cnt, nil, nil)
}

// Exec runs "the compiler" over the simulated disk: the loader by default, the whole
// command line in driver 3.  allow lists path prefixes outside the root that the
// executor itself may touch (the output file the command line names).
type Exec func(disk *simfs.Fs, root, module string, depth int) (apps []string, err error)

// RunLCaseExec is RunLCase with a pluggable executor.
func RunLCaseExec(c *LCase, cnt core.Counters, exec Exec, allow []string) (*LResult, []V) {
	logOnce.Do(func() { logrus.SetOutput(new(bytes.Buffer)) })
	disk := simfs.New()
	for p, content := range c.Files {
		disk.PutFile(p, []byte(content))
	}
	expRoot := c.Root
	if !c.Explicit {
		expRoot = discover(c)
	}
	res := &LResult{}
	var mu sync.Mutex
	opens := 0
	openLimit := 40 + 10*len(c.Files)
	runaway := false
	disk.Hook = func(op string, paths []string) error {
		mu.Lock()
		defer mu.Unlock()
		res.Ops++
		for _, p := range paths {
			cl := disk.Abs(p)
			inside := expRoot == "/" || cl == expRoot || strings.HasPrefix(cl, expRoot+"/")
			if inside {
				continue
			}
			allowed := false
			for _, a := range allow {
				if cl == a || strings.HasPrefix(cl, a+"/") {
					allowed = true
				}
			}
			if allowed {
				continue
			}
			base := path.Base(cl)
			if !c.Explicit && op == "Stat" && (base == ".sysl" || base == ".git") && strings.HasPrefix(c.Module, path.Dir(cl)) {
				cnt.Inc("discovery_stats_outside_root")
				continue
			}
			res.Escapes = append(res.Escapes, fmt.Sprintf("%s %q (resolves to %q, root %q)", op, p, cl, expRoot))
		}
		if op == "Open" {
			opens++
			if opens > openLimit {
				// bounded liveness: a closure over n files that needs more than 40+10n
				// opens is not going to end; stop it with disk errors
				runaway = true
				return syscall.EIO
			}
			if e, ok := c.Faults[disk.Abs(paths[0])]; ok {
				cnt.Inc("fault_fired_" + e)
				return errnos[e]
			}
		}
		return nil
	}
	var canaryDir string
	var canaryBefore map[string]string
	if (c.ExtRef != "" || c.PinFile) && exec == nil {
		// canaries on the real disk: the same referenced file, placed where a read that
		// bypasses the simulated disk and resolves against the working directory of the
		// process would find it; and a pin file that is not YAML where a pin file looked up
		// relative to the working directory would be
		if tmp, err := os.MkdirTemp("", "extref"); err == nil {
			defer os.RemoveAll(tmp)
			cw := filepath.Join(tmp, "a", "b", "c", "cw")
			_ = os.MkdirAll(filepath.Join(cw, ".sysl"), 0o755)
			_ = os.MkdirAll(filepath.Join(tmp, "a", "b", "etc"), 0o755)
			canary := []byte(c.Files["/secret/secret.yaml"])
			_ = os.WriteFile(filepath.Join(tmp, "a", "b", "c", "secret.yaml"), canary, 0o644)
			_ = os.WriteFile(filepath.Join(tmp, "a", "b", "etc", "secret.yaml"), canary, 0o644)
			_ = os.WriteFile(filepath.Join(cw, ".sysl", "modules.yaml"), []byte("{{{ not: [yaml\n"), 0o644)
			if strings.HasPrefix(c.ExtRef, "file://") {
				_ = os.MkdirAll(filepath.Dir(fileCanary), 0o755)
				_ = os.WriteFile(fileCanary, canary, 0o644)
				defer os.RemoveAll(filepath.Dir(fileCanary))
			}
			if old, err := os.Getwd(); err == nil && os.Chdir(cw) == nil {
				defer func() { _ = os.Chdir(old) }()
				canaryDir, canaryBefore = tmp, snapshotReal(tmp)
			}
		}
	}
	if c.Seed%4 == 1 {
		old := logrus.GetLevel()
		logrus.SetLevel(logrus.DebugLevel) // sysl -v
		defer logrus.SetLevel(old)
		cnt.Inc("lcases_at_debug_log_level")
	}
	func() {
		defer func() {
			if r := recover(); r != nil {
				res.Panic = fmt.Sprintf("%v\n%s", r, debug.Stack())
			}
		}()
		root := ""
		if c.Explicit {
			root = c.Root
			if c.RootSpell != "" {
				root = c.RootSpell
				cnt.Inc("lcases_with_unclean_root_spelling")
			}
		}
		if exec != nil {
			apps, err := exec(disk, root, c.Module, c.MaxDepth)
			if err != nil {
				res.Err = err.Error()
				return
			}
			res.OK = true
			res.Apps = apps
			return
		}
		logger := logrus.New()
		logger.SetOutput(new(bytes.Buffer))
		m, _, err := loader.LoadSyslModuleWithSettings(root, c.Module, disk, logger, parse.Settings{MaxImportDepth: c.MaxDepth})
		if err != nil {
			res.Err = err.Error()
			return
		}
		res.OK = true
		res.Apps = core.SortedKeys(m.Apps)
		if c.ExtRef != "" {
			res.Model = prototext.Format(m)
		}
	}()

	var vs []V
	if canaryDir != "" {
		if after := snapshotReal(canaryDir); !sameSnapshot(canaryBefore, after) {
			vs = append(vs, V{Class: "escape", Detail: fmt.Sprintf("the working directory of the process (outside root %q, on the real disk) was written to during the compile: %s",
				expRoot, diffSnapshot(canaryBefore, after))})
		}
	}
	exp := expectL(c, expRoot)
	if runaway {
		sig := ""
		if exp.reentry {
			sig = "dotdot-reentry-cycle"
		}
		vs = append(vs, V{Class: "closure-does-not-end", Sig: sig, Detail: fmt.Sprintf(
			"more than %d opens for a project of %d files (root %q, module %q): the import closure does not terminate", openLimit, len(c.Files), expRoot, c.Module)})
		return res, vs
	}
	if len(res.Escapes) > 0 {
		cnt.Inc("escapes")
		vs = append(vs, V{Class: "escape", Detail: fmt.Sprintf("%d call(s) outside the root, first: %s", len(res.Escapes), res.Escapes[0])})
	}
	if res.Panic != "" {
		vs = append(vs, V{Class: "panic", Detail: core.Trunc(res.Panic, 1200)})
	}
	for _, a := range res.Apps {
		for _, p := range core.SortedKeys(c.Files) {
			if strings.HasPrefix(c.Files[p], a+":") || strings.Contains(c.Files[p], "\n"+a+":") || strings.Contains(c.Files[p], " key: \""+a+"\"") {
				if !(expRoot == "/" || strings.HasPrefix(p, expRoot+"/")) {
					vs = append(vs, V{Class: "outside-content-compiled", Detail: fmt.Sprintf("application %s, defined only in %s outside root %q, is in the model", a, p, expRoot)})
				}
			}
		}
	}
	if c.ExtRef != "" {
		// the referenced file is outside the root: it must not be read, whatever else
		// happens; inside the root: the reference resolves against the specification's own
		// directory, under the root
		cnt.Inc("lcase_external_reference_of_a_foreign_specification")
		if exec == nil && !c.RefInside && res.OK {
			vs = append(vs, V{Class: "escape-not-refused", Detail: fmt.Sprintf("$ref %q in %s/api/spec.yaml leaves root %q, yet the compile succeeded: the referenced file was read (from the real disk, "+
				"relative to the working directory of the process, if the simulated disk saw no call)", c.ExtRef, c.Root, expRoot)})
		}
		if exec == nil && c.RefInside && !(res.OK && strings.Contains(res.Model, "\"Other\"")) && res.Panic == "" {
			vs = append(vs, V{Class: "inside-path-broken", Detail: fmt.Sprintf("$ref %q in %s/api/spec.yaml stays inside the root and exists, but the compile failed or lacks the reference (%s)", c.ExtRef, c.Root,
				core.Trunc(core.OneLine(res.Err), 300))})
		}
		return res, vs
	}
	// functional expectation from the abstract tree
	if exp.reentry {
		cnt.Inc("lcase_ambiguous_reentry_spelling")
		return res, vs
	}
	switch {
	case exp.fail && res.OK:
		vs = append(vs, V{Class: "escape-not-refused", Detail: "compile succeeded although " + exp.why})
	case !exp.fail && !res.OK && res.Panic == "":
		vs = append(vs, V{Class: "inside-path-broken", Detail: fmt.Sprintf("compile failed (%s) although every path stays inside the root and exists", core.Trunc(core.OneLine(res.Err), 300))})
	case !exp.fail && res.OK:
		if strings.Join(res.Apps, ",") != strings.Join(exp.apps, ",") {
			vs = append(vs, V{Class: "wrong-resolution", Detail: fmt.Sprintf("applications %v, expected %v", res.Apps, exp.apps)})
		}
	}
	if exp.fail {
		cnt.Inc("lcase_expected_failure")
	} else {
		cnt.Inc("lcase_expected_success")
	}
	if exp.escaping {
		cnt.Inc("probe_escape_attempted_through_import_or_module")
	}
	if c.Hostlike > 0 {
		cnt.Inc("probe_local_import_that_looks_like_a_host")
	}
	return res, vs
}

// discover is the reference for root discovery: the nearest ancestor directory of the
// module that contains a .sysl marker, else the nearest with a .git marker, else the
// module's own directory.
func discover(c *LCase) string {
	for _, marker := range []string{".sysl", ".git"} {
		for d := path.Dir(c.Module); ; d = path.Dir(d) {
			for p := range c.Files {
				if strings.HasPrefix(p, path.Join(d, marker)+"/") {
					return d
				}
			}
			if d == "/" {
				break
			}
		}
	}
	return path.Dir(c.Module)
}

type lexpect struct {
	reentry  bool // some import climbs above the root and re-enters it by its real path
	fail     bool
	escaping bool
	why      string
	apps     []string
}

// expectL walks the imports lexically, relative to expRoot, the way the property states
// it: a path that leaves the root is an error; one that stays inside names that file.
func expectL(c *LCase, expRoot string) lexpect {
	var e lexpect
	join := func(rel string) (string, bool) { // rel: root-relative, may start with ".."
		full := path.Clean(expRoot + "/" + rel)
		ok := expRoot == "/" || full == expRoot || strings.HasPrefix(full, expRoot+"/")
		return full, ok
	}
	var modRel string
	if c.Explicit {
		modRel = c.Module
	} else {
		if !(expRoot == "/" || strings.HasPrefix(c.Module, expRoot+"/")) {
			// a module outside the discovered root cannot happen: the root is found above the module
			modRel = relTo(expRoot, c.Module)
		} else {
			modRel = strings.TrimPrefix(strings.TrimPrefix(c.Module, expRoot), "/")
		}
	}
	seen := map[string]int{}
	type item struct {
		rel   string
		depth int
	}
	apps := map[string]bool{}
	q := []item{{path.Clean(strings.TrimPrefix(modRel, "/")), 0}}
	if strings.HasPrefix(modRel, "/") {
		q[0].rel = path.Clean("./" + modRel)
	}
	fail := func(why string, esc bool) {
		if !e.fail {
			e.fail, e.why = true, why
		}
		e.escaping = e.escaping || esc
	}
	for len(q) > 0 {
		it := q[0]
		q = q[1:]
		if c.MaxDepth > 0 && it.depth >= c.MaxDepth {
			continue
		}
		full, ok := join(it.rel)
		if ok && (it.rel == ".." || strings.HasPrefix(it.rel, "../")) {
			// lexically inside only because the real path of the root is spelled out
			// after climbing above it: what this should mean is not fixed by the property
			e.reentry = true
		}
		if !ok {
			fail(fmt.Sprintf("%q leaves the root %q", it.rel, expRoot), true)
			continue
		}
		if _, dup := seen[full]; dup {
			continue
		}
		seen[full] = it.depth
		content, exists := c.Files[full]
		if !exists {
			fail(fmt.Sprintf("%q does not exist", full), false)
			continue
		}
		if f, bad := c.Faults[full]; bad {
			fail(fmt.Sprintf("%q cannot be opened (%s)", full, f), false)
			continue
		}
		relDir := path.Dir(it.rel)
		if strings.HasSuffix(full, ".textpb") {
			for _, line := range strings.Split(content, "\n") {
				if a, ok := strings.CutPrefix(line, " key: \""); ok {
					apps[strings.TrimSuffix(a, "\"")] = true
				}
			}
			continue
		}
		for _, line := range strings.Split(content, "\n") {
			if sp, ok := strings.CutPrefix(line, "import "); ok {
				if path.Ext(sp) == "" {
					sp += ".sysl"
				}
				var rel string
				if strings.HasPrefix(sp, "/") {
					rel = path.Clean("./" + sp)
				} else {
					rel = path.Join(relDir, sp)
				}
				q = append(q, item{rel, it.depth + 1})
			} else if a, ok := strings.CutSuffix(line, ":"); ok && !strings.HasPrefix(line, " ") {
				apps[a] = true
			}
		}
	}
	e.apps = core.SortedKeys(apps)
	_ = syscall.ENOENT
	return e
}

// snapshotReal lists the files below dir on the real disk with their contents.
func snapshotReal(dir string) map[string]string {
	out := map[string]string{}
	_ = filepath.Walk(dir, func(p string, info os.FileInfo, err error) error {
		if err != nil {
			return nil
		}
		if info.IsDir() {
			out[p] = "<dir>"
		} else if b, err := os.ReadFile(p); err == nil {
			out[p] = string(b)
		}
		return nil
	})
	return out
}

func sameSnapshot(a, b map[string]string) bool { return diffSnapshot(a, b) == "" }

func diffSnapshot(a, b map[string]string) string {
	for _, k := range core.SortedKeys(b) {
		if v, ok := a[k]; !ok {
			return "new " + k
		} else if v != b[k] {
			return "changed " + k
		}
	}
	for _, k := range core.SortedKeys(a) {
		if _, ok := b[k]; !ok {
			return "removed " + k
		}
	}
	return ""
}

// RebaseLCase moves the project of a case to another root directory (paths below the old
// root are re-rooted, everything else stays where it is).
func RebaseLCase(c *LCase, newRoot string) *LCase {
	b, _ := json.Marshal(c)
	var n LCase
	_ = json.Unmarshal(b, &n)
	mv := func(p string) string {
		if p == c.Root {
			return newRoot
		}
		if strings.HasPrefix(p, c.Root+"/") {
			return newRoot + strings.TrimPrefix(p, c.Root)
		}
		return p
	}
	n.Files, n.Faults = map[string]string{}, map[string]string{}
	for p, v := range c.Files {
		n.Files[mv(p)] = v
	}
	for p, v := range c.Faults {
		n.Faults[mv(p)] = v
	}
	n.Root = newRoot
	if !c.Explicit {
		n.Module = mv(c.Module)
	}
	return &n
}
