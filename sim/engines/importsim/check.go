package importsim

import (
	"fmt"
	"sort"
	"strings"

	"verif/sim/core"
)

// Violation is one failed oracle.
type Violation struct {
	Class  string `json:"class"`
	Detail string `json:"detail"`
	Sig    string `json:"sig,omitempty"` // history signature for known-findings lookup
}

func eqStrings(a, b []string) bool {
	if len(a) != len(b) {
		return false
	}
	for i := range a {
		if a[i] != b[i] {
			return false
		}
	}
	return true
}

func sortedCopy(a []string) []string {
	b := append([]string(nil), a...)
	sort.Strings(b)
	return b
}

func subset(a, b []string) bool {
	m := map[string]bool{}
	for _, x := range b {
		m[x] = true
	}
	for _, x := range a {
		if !m[x] {
			return false
		}
	}
	return true
}

// Check evaluates every per-run oracle, and the cross-schedule oracle against base
// (nil for the first schedule of a graph).
func Check(w *Workload, e *Expect, o, base *Outcome, faulty bool) []Violation {
	var vs []Violation
	add := func(class, detail, sig string) { vs = append(vs, Violation{class, detail, sig}) }

	// --- always: no crash, no hang, clean termination ---
	if o.Panic != "" {
		add("panic", core.Trunc(o.Panic, 1500), "")
	}
	if o.Sched.Deadlock {
		add("hang", "every goroutine blocked, Parse never returned", "")
	}
	if o.Sched.StepLimit {
		add("hang", fmt.Sprintf("no result after %d scheduler steps", o.Steps), "")
	}
	if o.Sched.BubblePanic != "" && !o.Sched.Deadlock {
		add("hang", "goroutines left blocked after Parse returned: "+core.Trunc(o.Sched.BubblePanic, 300), "")
	}
	if len(o.Stragglers) > 0 {
		add("stragglers", fmt.Sprintf("work still pending after Parse returned: %v", o.Stragglers), "")
	}
	if o.Fatal {
		add("fatal-exit", "logrus.Fatal/os.Exit called inside Parse", "")
	}
	if o.ModelErr {
		add("model-with-error", "Parse returned a model together with an error: "+core.Trunc(o.Err, 200), "")
	}
	if o.IsExit && o.ExitCode == 0 {
		add("zero-exit-code", "error is an Exit with code 0: "+core.Trunc(o.Err, 200), "")
	}
	if len(vs) > 0 {
		return vs
	}
	// Fetching a file twice is not by itself a violation of the statement (each file must
	// CONTRIBUTE once): it is counted as a probe; a double contribution shows in the set /
	// order oracles below.
	for _, p := range core.SortedKeys(o.Reads) {
		if o.Reads[p] > 1 {
			o.Probes.Inc("probe_file_fetched_more_than_once")
		}
	}

	expectFail := e.Conflict && !e.Uncertain || len(e.Bad) > 0
	switch {
	case expectFail && o.OK:
		what := "an import-definition conflict"
		if len(e.Bad) > 0 {
			what = fmt.Sprintf("bad file(s) %v in the closure", paths(w, e.Bad))
		}
		add("missed-failure", "compile succeeded although "+what, "")
	case expectFail && !o.OK:
		named := false
		// Any file that carries a fault may legitimately be the one reported: with
		// uncertain faults in the plan, a bad file can be reached through a file whose
		// import section the model does not trust.
		for _, ft := range w.Faults {
			if strings.Contains(o.Err, w.Files[ft.File].Path) {
				named = true
			}
		}
		if e.Conflict || e.Uncertain {
			// a conflict is reported against the file that is imported twice
			for _, d := range e.Divergent {
				if strings.Contains(o.Err, w.Files[d].Path) {
					named = true
				}
			}
			if strings.Contains(o.Err, "imported as different") {
				named = true
			}
		}
		if !named {
			add("unnamed-failure", fmt.Sprintf("error does not name any failing file %v: %s", paths(w, e.Bad), core.Trunc(o.Err, 300)), "")
		}
	case !expectFail && !o.OK && !e.Uncertain:
		add("spurious-failure", "compile failed on a sound closure: "+core.Trunc(o.Err, 300), "")
	}

	// --- closure oracle (sound closure, compile succeeded) ---
	if !expectFail && o.OK && !e.Uncertain {
		wantApps := []string{}
		for _, i := range e.Included {
			if w.Files[i].Kind == "sysl" {
				wantApps = append(wantApps, fmt.Sprintf("F%d", i))
				if w.Files[i].Layout&32 != 0 {
					wantApps = append(wantApps, fmt.Sprintf("importer%d", i))
				}
				if w.Files[i].Layout&16 != 0 {
					wantApps = append(wantApps, fmt.Sprintf("import Gateway%d", i))
				}
			} else {
				wantApps = append(wantApps, foreignAs(i))
			}
		}
		if len(e.OrderPath) > 0 {
			wantApps = append(wantApps, "Shared")
		}
		gotApps := []string{}
		for _, a := range o.Apps {
			if i := strings.LastIndex(a, "."); i >= 0 { // "pkg.sub.Foreign3"
				a = a[i+1:]
			}
			gotApps = append(gotApps, a)
		}
		wa, ga := sortedCopy(wantApps), sortedCopy(gotApps)
		if !eqStrings(wa, ga) {
			add("wrong-set", fmt.Sprintf("applications %v, expected %v (depth limit %d)", ga, wa, w.MaxDepth), "")
		} else if !eqStrings(o.Order, e.OrderPath) {
			if !eqStrings(sortedCopy(o.Order), sortedCopy(e.OrderPath)) {
				add("wrong-set", fmt.Sprintf("files merged %v, expected %v", o.Order, e.OrderPath), "")
			} else {
				add("wrong-order", fmt.Sprintf("files merged in order %v, expected %v", o.Order, e.OrderPath), "")
			}
		} else if !eqStrings(sortedCopy(o.SrcCtx), sortedCopy(e.SrcCtx)) {
			add("wrong-import-definition", fmt.Sprintf("files stamped as %v, expected (first import statement in text order) %v",
				sortedCopy(o.SrcCtx), sortedCopy(e.SrcCtx)), "")
		}
		for _, f := range w.Files {
			if d, ok := o.ClaimDepth[f.Path]; ok && d != e.Dist[f.ID] {
				add("wrong-depth", fmt.Sprintf("%s registered at depth %d, its import distance is %d", f.Path, d, e.Dist[f.ID]), "")
			}
		}
	}

	// --- cross-schedule identity ---
	if base != nil {
		sig := ""
		switch {
		case o.OK != base.OK && !(expectFail):
			add("schedule-dependent", fmt.Sprintf("success depends on the schedule: this run ok=%v (%s), baseline ok=%v (%s)",
				o.OK, core.Trunc(core.OneLine(o.Err), 160), base.OK, core.Trunc(core.OneLine(base.Err), 160)), sig)
		case o.OK && base.OK && o.JSON != base.JSON:
			add("schedule-dependent", "model differs between two schedules: "+firstDiff(base.JSON, o.JSON), sig)
		case o.OK && base.OK && o.Text != base.Text:
			add("schedule-dependent", "text serialisation differs between two schedules: "+firstDiff(base.Text, o.Text), sig)
		}
	}
	return vs
}

func paths(w *Workload, ids []int) []string {
	var out []string
	for _, i := range ids {
		out = append(out, w.Files[i].Path)
	}
	return out
}

func firstDiff(a, b string) string {
	al, bl := strings.Split(a, "\n"), strings.Split(b, "\n")
	for i := 0; i < len(al) && i < len(bl); i++ {
		if al[i] != bl[i] {
			return fmt.Sprintf("line %d: %q vs %q", i+1, core.Trunc(al[i], 120), core.Trunc(bl[i], 120))
		}
	}
	return fmt.Sprintf("length %d vs %d lines", len(al), len(bl))
}
