#!/bin/bash
# Determinism self-test of the importsim engine: the same VERIF_SEED and the same fixed
# set of graphs, run in two batches of worker processes that differ in worker count and
# in GOMAXPROCS per worker, must give identical digests (event logs + outcomes of every
# schedule of every graph).  Exit 0 = identical.
cd "$(dirname "$0")"
N=${1:-240}
for p in C05 C06; do
  VERIF_MAX_CASES=$N VERIF_DIGESTS=/var/tmp/dig-$p-a.json VERIF_WORKERS=14 ./check $p quick > /dev/null 2>&1 || echo "run a of $p exited $?"
  VERIF_MAX_CASES=$N VERIF_DIGESTS=/var/tmp/dig-$p-b.json VERIF_WORKERS=5 VERIF_GOMAXPROCS_ROT=1 ./check $p quick > /dev/null 2>&1 || echo "run b of $p exited $?"
  python3 - "$p" <<'PY'
import json,sys
p=sys.argv[1]
a=json.load(open('/var/tmp/dig-%s-a.json'%p)); b=json.load(open('/var/tmp/dig-%s-b.json'%p))
common=set(a)&set(b); diff=[k for k in common if a[k]!=b[k]]
print(p,'graphs compared',len(common),'of',len(a),len(b),'differing',len(diff),diff[:5])
sys.exit(1 if diff or not common else 0)
PY
  rc=$?; rm -f /var/tmp/dig-$p-a.json /var/tmp/dig-$p-b.json
  [ $rc = 0 ] || exit 1
done
echo "determinism self-test passed"
