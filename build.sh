#!/bin/bash
# build.sh <workdir> <engine>   — builds one engine's test binary from /repo's current
# working tree (hooks on: -tags verif) with the runtime overlay.  Exit 2 on any trouble.
# Sourced helpers for ./check; prints the path of the binary.
set -u
WORK=$1; ENGINE=$2; RACE=${3:-}
export GOFLAGS=-mod=mod GOPROXY=off GOSUMDB=off GOTOOLCHAIN=local CGO_ENABLED=${CGO_ENABLED:-1}
GO=/opt/veriftools/go1.26.8/bin/go
GOROOT_V=/opt/veriftools/go1.26.8
REPO=${VERIF_REPO:-/repo}
VERIF=${VERIF_DIR:-/verif}
mkdir -p "$WORK/ov" || exit 2
# arr.ai's hash keys (crypto/rand at init) go behind the process-level seed too: a private,
# patched copy of the module, wired in with a replace line (ordersim only)
HASHCOPY=""
if [ "$ENGINE" = ordersim ]; then
  HASHDIR=$(cd "$REPO" && $GO list -m -f '{{.Dir}}' github.com/arr-ai/hash 2>/dev/null)
  if [ -n "$HASHDIR" ] && [ -d "$HASHDIR" ]; then
    HASHCOPY="$WORK/arrai-hash"
    rm -rf "$HASHCOPY"; cp -r "$HASHDIR" "$HASHCOPY" && chmod -R u+w "$HASHCOPY" || exit 2
  fi
fi
REPL=$(python3 "$VERIF/rt/patch_runtime.py" "$GOROOT_V" "$WORK/ov" "$HASHCOPY") || { echo "HARNESS-ERROR: runtime overlay generation failed" >&2; exit 2; }

if [ "$ENGINE" = ordersim ]; then
  # CLI driver: a _test.go file injected into /repo/cmd/sysl through the overlay;
  # the repository's own test files of that package are hidden.
  HIDE=""
  for f in "$REPO"/cmd/sysl/*_test.go; do
    [ -e "$f" ] || continue
    HIDE="$HIDE,\"$f\":\"\""
  done
  INJ=""
  for f in "$VERIF"/sim/ordersim/*.go.txt; do
    b=$(basename "$f" .go.txt)
    case $b in *_test) t="$REPO/cmd/sysl/zz_verif_$b.go" ;; *) t="$REPO/cmd/sysl/zz_verif_${b}_test.go" ;; esac
    INJ="$INJ,\"$t\":\"$f\""
  done
  echo "{\"Replace\":{${REPL:1:${#REPL}-2}$INJ$HIDE}}" > "$WORK/ov.json"
  { cat "$REPO/go.mod"; echo; echo "require verif/sim v0.0.0"; echo "replace verif/sim => $VERIF/sim"
    [ -n "$HASHCOPY" ] && echo "replace github.com/arr-ai/hash => $HASHCOPY"; } > "$WORK/go.mod"
  cp "$REPO/go.sum" "$WORK/go.sum"
  (cd "$REPO" && $GO test -c -vet=off $RACE -tags verif -modfile "$WORK/go.mod" -overlay "$WORK/ov.json" -o "$WORK/$ENGINE.test" ./cmd/sysl) >&2 || { echo "HARNESS-ERROR: build of $ENGINE failed" >&2; exit 2; }
else
  echo "{\"Replace\":$REPL}" > "$WORK/ov.json"
  {
    echo "module verif/sim"; echo; echo "go 1.26.8"; echo
    echo "require github.com/anz-bank/sysl v0.0.0-00010101000000-000000000000"
    echo "replace github.com/anz-bank/sysl => $REPO"
    # carry over the repository's own requirements so that no resolution is needed
    awk '/^require \(/{f=1;print;next} f&&/^\)/{f=0;print;next} f{print}' "$REPO/go.mod"
  } > "$WORK/go.mod"
  cp "$REPO/go.sum" "$WORK/go.sum"
  (cd "$VERIF/sim" && $GO test -c -vet=off $RACE -tags verif -modfile "$WORK/go.mod" -overlay "$WORK/ov.json" -o "$WORK/$ENGINE.test" ./engines/$ENGINE) >&2 || { echo "HARNESS-ERROR: build of $ENGINE failed" >&2; exit 2; }
fi
echo "$WORK/$ENGINE.test"
