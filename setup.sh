#!/bin/bash
# Offline setup: warm the Go build cache for the harness binaries (std with the runtime
# overlay, sysl with -tags verif).  Checks rebuild from /repo on every invocation anyway.
set -u
cd "$(dirname "$0")"
export GOFLAGS=-mod=mod GOPROXY=off GOSUMDB=off GOTOOLCHAIN=local
W=$(mktemp -d /var/tmp/verif-setup-XXXXXX) || exit 1
trap 'rm -rf "$W"' EXIT
for e in importsim chrootsim ordersim compilesim; do
  ./build.sh "$W/$e" "$e" >/dev/null || exit 1
done
./build.sh "$W/race" compilesim -race >/dev/null || exit 1
./build.sh "$W/race2" importsim -race >/dev/null || exit 1
echo setup ok
