// Package compilesim interleaves k whole compilations at token granularity under the
// cooperative scheduler, and runs them in parallel waves under the race detector
// (property C07, sub-checks a and b; sub-check c is ordersim restricted to pb output).
package compilesim

import (
	"bytes"
	"context"
	"encoding/json"
	"errors"
	"fmt"
	"os"
	"path"
	"path/filepath"
	"runtime/debug"
	"sort"
	"strings"
	"sync"
	"sync/atomic"
	"testing"
	"time"

	"github.com/anz-bank/golden-retriever/reader"
	"github.com/anz-bank/golden-retriever/reader/filesystem"
	"github.com/anz-bank/golden-retriever/reader/remotefs"
	"github.com/anz-bank/golden-retriever/retriever"
	"github.com/sirupsen/logrus"
	"github.com/spf13/afero"

	parser "github.com/anz-bank/sysl/pkg/grammar"
	"github.com/anz-bank/sysl/pkg/parse"
	"github.com/anz-bank/sysl/pkg/pbutil"
	"github.com/anz-bank/sysl/pkg/verifhook"

	"verif/sim/core"
	"verif/sim/engines/importsim"
	"verif/sim/simfs"
)

// Source is something to compile: a corpus file on the real disk or a generated
// multi-file model on a simulated disk.
type Source struct {
	Name       string            `json:"name"`
	Root       string            `json:"root,omitempty"`  // corpus: directory on the real disk
	Files      map[string]string `json:"files,omitempty"` // generated: path -> content
	Depth      int               `json:"max_depth,omitempty"`
	NoVerCheck bool              `json:"no_different_version_check,omitempty"`
	// ExpectApps: for generated models, the application names the reference closure
	// model predicts (independent of any earlier compilation in this process).
	ExpectApps []string `json:"expect_apps,omitempty"`
	// ExpectHas / ExpectHasNot: substrings the serialised result must / must not contain
	// (an oracle that does not depend on any earlier compilation in this process).
	ExpectHas    []string `json:"expect_has,omitempty"`
	ExpectHasNot []string `json:"expect_has_not,omitempty"`
	// Packed: the files are served as slices of one buffer shared by every compilation of
	// this source (see packedReader) instead of a private copy per read.
	Packed   bool `json:"packed_reader,omitempty"`
	packOnce sync.Once
	packed   *packedReader
}

type noRetriever struct{}

func (noRetriever) Retrieve(context.Context, *retriever.Resource) ([]byte, error) {
	return nil, errors.New("remote imports are not available in the simulation")
}

// packedReader serves the files of one source out of one buffer, the way a bundle, an
// unpacked archive or a memory map does: a read returns buf[off:off+n], a slice whose
// capacity reaches to the end of the buffer and which every reader of that file gets.
// What it hands out belongs to the reader: a compilation may read it, never write it (or
// append to it).  Everything else (directory operations, opens by the importers, remote
// names) goes to the ordinary simulated disk.
type packedReader struct {
	reader.Reader
	buf []byte
	idx map[string][2]int
	sum uint64
}

func newPackedReader(inner reader.Reader, files map[string]string) *packedReader {
	pr := &packedReader{Reader: inner, idx: map[string][2]int{}}
	for _, p := range core.SortedKeys(files) {
		pr.idx[path.Clean("/"+p)] = [2]int{len(pr.buf), len(pr.buf) + len(files[p])}
		pr.buf = append(pr.buf, files[p]...)
	}
	pr.buf = append(pr.buf, strings.Repeat("#", 64)...) // the last file has something behind it too
	pr.sum = core.HashStrings(string(pr.buf))
	return pr
}

func (pr *packedReader) lookup(name string) ([]byte, bool) {
	if strings.HasPrefix(name, "//") {
		return nil, false
	}
	if i := strings.Index(name, "@"); i >= 0 {
		name = name[:i]
	}
	se, ok := pr.idx[path.Clean("/"+name)]
	if !ok {
		return nil, false
	}
	return pr.buf[se[0]:se[1]], true
}

func (pr *packedReader) Read(ctx context.Context, name string) ([]byte, error) {
	if b, ok := pr.lookup(name); ok {
		return b, nil
	}
	return pr.Reader.Read(ctx, name)
}

func (pr *packedReader) ReadHash(ctx context.Context, name string) ([]byte, retriever.Hash, error) {
	if b, ok := pr.lookup(name); ok {
		return b, retriever.ZeroHash, nil
	}
	return pr.Reader.ReadHash(ctx, name)
}

func (pr *packedReader) ReadHashBranch(ctx context.Context, name string) ([]byte, retriever.Hash, string, error) {
	if b, ok := pr.lookup(name); ok {
		return b, retriever.ZeroHash, "", nil
	}
	return pr.Reader.ReadHashBranch(ctx, name)
}

// intact reports whether the buffer still holds what was stored.
func (pr *packedReader) intact() bool { return core.HashStrings(string(pr.buf)) == pr.sum }

func (s *Source) reader() reader.Reader {
	if s.Files != nil && s.Packed {
		s.packOnce.Do(func() {
			fs := simfs.New()
			fs.Record = false
			for p, c := range s.Files {
				fs.PutFile(p, []byte(c))
			}
			s.packed = newPackedReader(remotefs.NewWithRetriever(filesystem.New(fs), noRetriever{}), s.Files)
		})
		return s.packed
	}
	if s.Files != nil {
		fs := simfs.New()
		fs.Record = false
		for p, c := range s.Files {
			fs.PutFile(p, []byte(c))
		}
		return remotefs.NewWithRetriever(filesystem.New(fs), noRetriever{})
	}
	return remotefs.NewWithRetriever(filesystem.New(afero.NewBasePathFs(afero.NewOsFs(), s.Root)), noRetriever{})
}

type fatalSentinel struct{}

// compile runs one compilation and serialises its outcome.
func compile(s *Source) (out string) {
	defer func() {
		if r := recover(); r != nil {
			if _, ok := r.(fatalSentinel); ok {
				out = "FATAL"
				return
			}
			out = fmt.Sprintf("PANIC %v\n%s", r, debug.Stack())
		}
	}()
	p := parse.NewParser()
	p.Set(parse.Settings{MaxImportDepth: s.Depth, NoDifferentVersionCheck: s.NoVerCheck})
	m, err := p.Parse(s.Name, s.reader())
	if err != nil {
		return "ERROR " + err.Error()
	}
	var jb, tb bytes.Buffer
	if e := pbutil.FJSONPB(&jb, m); e != nil {
		return "ERROR serialise " + e.Error()
	}
	_ = pbutil.FTextPB(&tb, m)
	return "OK\n" + jb.String() + "\n----\n" + tb.String()
}

var current atomic.Pointer[core.Sched]
var tokQuantum atomic.Int64 // park at every n-th token of a goroutine (0 = never)
var tokCount sync.Map       // goroutine label -> *int64 (wave mode only)
var installOnce sync.Once

func install() {
	installOnce.Do(func() {
		verifhook.Hook = func(point, key string) {
			s := current.Load()
			if s == nil {
				return
			}
			if point == "tok" {
				q := tokQuantum.Load()
				if q == 0 {
					return
				}
				if q > 1 {
					v, _ := tokCount.LoadOrStore(core.Task(), new(int64))
					n := v.(*int64)
					*n++ // one goroutine per label: no race
					if *n%q != 0 {
						return
					}
				}
			}
			s.Park(point, key)
		}
		logrus.StandardLogger().ExitFunc = func(int) { panic(fatalSentinel{}) }
		logrus.SetOutput(new(bytes.Buffer))
	})
}

// Plan is one run: which sources, in how many tasks, under which policy.
type Plan struct {
	Seed    uint64    `json:"seed"`
	Sources []*Source `json:"sources"` // one task per entry (entries may repeat a source)
	Policy  string    `json:"policy"`
	Stay    float64   `json:"stay,omitempty"`
	Quantum int64     `json:"quantum"`
	Picks   []string  `json:"picks,omitempty"` // recorded trace (replay)
	// ClockJump > 0: the simulated clock jumps forward by two minutes after every so many
	// scheduler steps (fault kind clock-jump): a compilation must not depend on how long it takes
	ClockJump int `json:"clock_jump_every,omitempty"`
}

type runOut struct {
	ClockJumps int
	Results    []string
	LexerLeft  int
	Steps      int
	Choices    int
	Switches   int
	MaxParked  int
	Picks      []string
	Sched      core.RunResult
	Stragglers []string
}

func runPlan(t *testing.T, pl *Plan, picker core.Picker) *runOut {
	install()
	o := &runOut{Results: make([]string, len(pl.Sources))}
	s := core.NewSched("tok", "claim", "convert")
	s.RefineAt("claim", "convert")
	tokQuantum.Store(pl.Quantum)
	tokCount = sync.Map{}
	if pl.ClockJump > 0 {
		s.ClockJumpEvery, s.ClockJump = pl.ClockJump, 2*time.Minute
	}
	root := func() {
		var wg sync.WaitGroup
		for i, src := range pl.Sources {
			wg.Add(1)
			go func(i int, src *Source) {
				defer wg.Done()
				core.SetTask(fmt.Sprintf("T%02d", i))
				o.Results[i] = compile(src)
			}(i, src)
		}
		wg.Wait()
	}
	current.Store(s)
	o.Sched = s.Run(t, root, picker, 20_000_000)
	current.Store(nil)
	core.ResetLabelPins()
	o.LexerLeft = parser.VerifLexerStateCount()
	o.Steps, o.Choices, o.MaxParked, o.Picks, o.Stragglers = s.Steps, s.Choices, s.MaxParked, s.Picks, s.Stragglers
	o.ClockJumps = s.ClockJumps
	last := ""
	for _, p := range s.Picks {
		tk := p
		if i := strings.IndexAny(p, "|/"); i >= 0 {
			tk = p[:i]
		}
		if tk != last {
			o.Switches++
			last = tk
		}
	}
	return o
}

// specials: small hand-written models for the parts of post-processing that the corpus
// hardly touches: views whose let-scopes and anonymous types are shared state of the
// Parser, and mixins that make it log warnings.  A fresh copy per plan (sources are
// compared by pointer).
func specials(seed uint64) []*Source {
	pad := func(n int) string {
		var sb strings.Builder
		for i := 0; i < n; i++ {
			fmt.Fprintf(&sb, "  !type P%d:\n    next <: P%d\n", i, (i+1)%n)
		}
		return sb.String()
	}
	n := int(seed % 97)
	texts := []string{
		// two applications with a same-named view and let variable
		"AppA:\n" + pad(n) + "  !view conv(number <: int) -> int:\n    number -> (:\n      let x = 1\n      out = x\n    )\n\n" +
			"AppB:\n" + pad(97-n) + "  !view conv(number <: int) -> int:\n    number -> (:\n      let x = \"s\"\n      out = x\n    )\n",
		// an application mixing in one whose view needs an anonymous type
		"AppA [~abstract]:\n  !view conv(number <: int) -> Some.Type:\n    argName -> <Some.Type> (:\n      let x = .breeds -> <set of>(:\n        breed = -> <M.Breed>(:\n            breedName = .name\n        )\n      )\n    )\n\nAppB:\n  -|> AppA\n" + pad(n) + "\nAppC:\n  -|> AppA\n",
		// mixins that draw warnings: not abstract, missing, duplicate type
		fmt.Sprintf("Base%d:\n  !type T:\n    a <: int\n\nUser%d:\n  -|> Base%d\n  -|> Missing%d\n  !type T:\n    b <: int\n  E: ...\n", n, n, n, n),
		// views with several anonymous types in one application
		"App:\n  !view a(number <: int) -> Some1.Type:\n    argName -> <Some.Type> (:\n      let x = .breeds -> <set of>(:\n        breed = -> <M.Breed>(:\n            breedName = .name\n        )\n      )\n    )\n\n  !view b(number <: int) -> Some1.Type:\n    argName -> <Some.Type> (:\n      let y = .cats -> <set of>(:\n        cat = -> <M.Cat>(:\n            catName = .name\n        )\n      )\n    )\n",
	}
	var out []*Source
	for i, t := range texts {
		out = append(out, &Source{Name: fmt.Sprintf("special%d.sysl", i), Files: map[string]string{fmt.Sprintf("special%d.sysl", i): t}})
	}
	return out
}

// foreignTwins: two tiny models that import a byte-identical Swagger document under the
// same application name but different packages; each result must carry its own package.
func foreignTwins() []*Source {
	doc := "swagger: \"2.0\"\ninfo:\n  title: Api\n  version: \"1\"\npaths:\n  /p:\n    get:\n      produces: [application/json]\n      responses:\n        200:\n          description: ok\n          schema:\n            type: string\n        404:\n          description: none\n          schema:\n            type: integer\n"
	mk := func(team, other string) *Source {
		return &Source{Name: "main.sysl", Files: map[string]string{
			"main.sysl": "import api.yaml as " + team + ".Api\n\nMain:\n    E: ...\n", "api.yaml": doc},
			ExpectHas: []string{"\"" + team + "\""}, ExpectHasNot: []string{"\"" + other + "\""}}
	}
	return []*Source{mk("team.one", "team.two"), mk("team.two", "team.one")}
}

// sharedSources: 48 generated multi-file models, the same in every process of a run; those
// with a depth limit and several paths to one file come first (where an algorithm chosen by
// the number of processors would show).
func sharedSources(seed uint64) []*Source {
	app := func(i int, imports ...string) string {
		var b strings.Builder
		for _, im := range imports {
			b.WriteString("import " + im + "\n")
		}
		fmt.Fprintf(&b, "\nF%d:\n    !type T%d:\n        x <: int\n", i, i)
		return b.String()
	}
	mk := func(depth int, files map[string]string) *Source {
		return &Source{Name: "f0.sysl", Files: files, Depth: depth}
	}
	var out []*Source
	for _, d := range []int{2, 3, 4, 5} {
		// a file reached by a long path that comes first in the text and by a short one
		out = append(out,
			mk(d, map[string]string{"f0.sysl": app(0, "f1", "f3"), "f1.sysl": app(1, "f3"), "f3.sysl": app(3, "f4"), "f4.sysl": app(4)}),
			mk(d, map[string]string{"f0.sysl": app(0, "f1", "f5"), "f1.sysl": app(1, "f2"), "f2.sysl": app(2, "f3"), "f3.sysl": app(3, "f4"), "f4.sysl": app(4, "f6"),
				"f5.sysl": app(5, "f3"), "f6.sysl": app(6)}),
			mk(d, map[string]string{"f0.sysl": app(0, "d/f1", "d/f2"), "d/f1.sysl": app(1, "f2", "../f0"), "d/f2.sysl": app(2, "e/f3"), "d/e/f3.sysl": app(3, "/d/f1", "f4"), "d/e/f4.sysl": app(4)}))
	}
	var limited, plain []*Source
	for k := 0; k < 3000 && len(limited) < 20; k++ {
		src := generated(core.Derive(seed, "C07", "same-in-every-process", fmt.Sprint(k)), false)
		if src.Depth > 0 && len(src.Files) >= 4 {
			limited = append(limited, src)
		} else if len(plain) < 16 {
			plain = append(plain, src)
		}
	}
	return append(append(out, limited...), plain...)
}

// swaggerCrowd: models that import Swagger documents whose definitions refer to each
// other (three mutually: converts; four mutually: the converter gives up, every time),
// next to the twins.
func swaggerCrowd() []*Source {
	graph := func(n int) string {
		var sb strings.Builder
		sb.WriteString("swagger: \"2.0\"\ninfo:\n  title: Graph\n  version: \"1\"\npaths:\n  /s0:\n    get:\n      responses:\n        200:\n          description: ok\n          schema:\n            $ref: '#/definitions/S0'\ndefinitions:\n")
		for i := 0; i < n; i++ {
			fmt.Fprintf(&sb, "  S%d:\n    type: object\n    properties:\n      id:\n        type: string\n", i)
			for j := 0; j < n; j++ {
				if i != j {
					fmt.Fprintf(&sb, "      p%d:\n        $ref: '#/definitions/S%d'\n", j, j)
				}
			}
		}
		return sb.String()
	}
	mk := func(n int) *Source {
		return &Source{Name: "main.sysl", Files: map[string]string{"main.sysl": "import g.yaml as G ~swagger\n\nApp:\n    ...\n", "g.yaml": graph(n)}}
	}
	k3, k4 := mk(3), mk(4)
	return append(foreignTwins(), k3, k4, k3, k4, mk(2), mk(4))
}

// ---- sources ------------------------------------------------------------------------

func repoDir() string { return core.EnvStr("VERIF_REPO", "/repo") }

func corpus() []*Source {
	var out []*Source
	for _, d := range []string{"tests", "pkg/parse/tests", "demo/examples", "pkg/importer/tests", "pkg/exporter/test-data"} {
		_ = filepath.Walk(filepath.Join(repoDir(), d), func(p string, info os.FileInfo, err error) error {
			if err == nil && !info.IsDir() && strings.HasSuffix(p, ".sysl") {
				rel, _ := filepath.Rel(repoDir(), p)
				out = append(out, &Source{Name: rel, Root: repoDir()})
			}
			return nil
		})
	}
	sort.Slice(out, func(i, j int) bool { return out[i].Name < out[j].Name })
	return out
}

// generated: a multi-file model from importsim's generator; broken = with injected
// content faults (garbage, truncation, flips), so that error paths of the lexer and
// parser run next to sound compilations.
func generated(seed uint64, broken bool) *Source {
	w := importsim.Gen(seed, broken)
	if broken && seed%2 == 0 {
		// an unclosed '[' leaves the lexer inside brackets at end of file: the state most
		// likely to leak into another compilation if lexer states are ever shared or recycled
		f := w.Files[int(seed/2)%len(w.Files)]
		if f.Kind == "sysl" {
			f.Text += "Tail [~x, y=\"z\"\n"
		}
	}
	src := &Source{Name: w.Files[0].Path, Files: map[string]string{}, Depth: w.MaxDepth, NoVerCheck: w.NoVerCheck, Packed: seed%3 != 0}
	for _, f := range w.Files {
		if !f.Remote && (f.Kind == "sysl" || f.Kind == "pbjson" || f.Kind == "textpb") {
			text := f.Text
			if src.Packed && !broken && f.Kind == "sysl" && (seed+uint64(f.ID))%2 == 0 {
				text = strings.TrimSuffix(text, "\n") // a last line without a line break is legal
			}
			src.Files[f.Path] = text
		}
	}
	e := importsim.Model(w)
	ok := !e.Conflict && !broken
	for _, i := range e.Included {
		f := w.Files[i]
		switch {
		case f.Remote || !(f.Kind == "sysl" || f.Kind == "pbjson" || f.Kind == "textpb"):
			ok = false // needs the retriever or a slow importer: no expectation
		case f.Kind == "sysl":
			src.ExpectApps = append(src.ExpectApps, fmt.Sprintf("F%d", i))
			if w.Files[i].Layout&32 != 0 {
				src.ExpectApps = append(src.ExpectApps, fmt.Sprintf("importer%d", i))
			}
			if w.Files[i].Layout&16 != 0 {
				src.ExpectApps = append(src.ExpectApps, fmt.Sprintf("import Gateway%d", i))
			}
		default:
			src.ExpectApps = append(src.ExpectApps, fmt.Sprintf("Foreign%d", i))
		}
	}
	if ok {
		src.ExpectApps = append(src.ExpectApps, "Shared")
		sort.Strings(src.ExpectApps)
	} else {
		src.ExpectApps = nil
	}
	return src
}

type V struct {
	Class  string
	Detail string
}

var foreignMemo = map[*Source]bool{}

// importsForeignSpec: the source pulls in an OpenAPI/Swagger/proto document, whose
// arr.ai-based conversion takes tens of seconds under the race detector.
func importsForeignSpec(s *Source) bool {
	if v, ok := foreignMemo[s]; ok {
		return v
	}
	v := false
	if s.Files == nil {
		b, _ := os.ReadFile(filepath.Join(s.Root, s.Name))
		for _, l := range strings.Split(string(b), "\n") {
			if strings.HasPrefix(l, "import ") && (strings.Contains(l, ".yaml") || strings.Contains(l, ".yml") || strings.Contains(l, ".json") ||
				strings.Contains(l, ".proto") || strings.Contains(l, "~")) {
				v = true
			}
		}
		if strings.Contains(s.Name, "openapi") || strings.Contains(s.Name, "swagger") {
			v = true
		}
	}
	foreignMemo[s] = v
	return v
}

func check(pl *Plan, o *runOut, seq map[*Source]string, cnt core.Counters) []V {
	var vs []V
	if o.Sched.Deadlock || o.Sched.StepLimit {
		vs = append(vs, V{"hang", "concurrent compilations never finished"})
		return vs
	}
	if o.Sched.BubblePanic != "" {
		vs = append(vs, V{"hang", "goroutines left blocked: " + core.Trunc(o.Sched.BubblePanic, 300)})
	}
	for i, src := range pl.Sources {
		want, got := seq[src], o.Results[i]
		if src.ExpectApps != nil {
			cnt.Inc("results_checked_against_closure_model")
			if apps, ok := appsOf(got); !ok || strings.Join(apps, ",") != strings.Join(src.ExpectApps, ",") {
				vs = append(vs, V{"result-differs-from-model", fmt.Sprintf("task %d (%s): applications %v, the closure model of this generated source says %v (%s)",
					i, src.Name, apps, src.ExpectApps, core.Trunc(core.OneLine(got), 160))})
				continue
			}
		}
		bad := false
		for _, x := range src.ExpectHas {
			if !strings.Contains(got, x) {
				vs = append(vs, V{"result-differs-from-model", fmt.Sprintf("task %d (%s): result lacks %q, which its own text declares (%s)", i, src.Name, x, core.Trunc(core.OneLine(got), 120))})
				bad = true
			}
		}
		for _, x := range src.ExpectHasNot {
			if strings.Contains(got, x) {
				vs = append(vs, V{"result-differs-from-model", fmt.Sprintf("task %d (%s): result contains %q, which only another task's source declares", i, src.Name, x)})
				bad = true
			}
		}
		if bad || len(src.ExpectHas) > 0 {
			cnt.Inc("results_checked_against_own_text")
			if !bad && want != "" && got != want {
				vs = append(vs, V{"result-differs-from-sequential", fmt.Sprintf("task %d (%s): concurrent result differs from the result of compiling it alone: %s", i, src.Name, firstDiff(want, got))})
			}
			continue
		}
		if got == want {
			continue
		}
		if strings.HasPrefix(got, "ERROR") && strings.HasPrefix(want, "ERROR") {
			cnt.Inc("probe_error_text_differs_between_runs") // several errors, first in time wins
			continue
		}
		vs = append(vs, V{"result-differs-from-sequential", fmt.Sprintf("task %d (%s): concurrent result differs from the result of compiling it alone: %s",
			i, src.Name, firstDiff(want, got))})
	}
	seenPacked := map[*Source]bool{}
	for _, src := range pl.Sources {
		if src.packed != nil && !seenPacked[src] {
			seenPacked[src] = true
			cnt.Inc("packed_reader_buffers_verified")
			if !src.packed.intact() {
				vs = append(vs, V{"reader-buffer-modified", fmt.Sprintf("source %s: the buffer its reader serves files from (slices of one array, shared by all compilations) "+
					"was written to by a compilation; later and concurrent compilations read different sources", src.Name)})
			}
		}
	}
	if o.LexerLeft != 0 {
		vs = append(vs, V{"lexer-state-leak", fmt.Sprintf("%d lexer state(s) left in the process-global map after all compilations returned", o.LexerLeft)})
	}
	return vs
}

// appsOf extracts the application names from a serialised result.
func appsOf(res string) ([]string, bool) {
	if !strings.HasPrefix(res, "OK\n") {
		return nil, false
	}
	j := res[3:]
	if k := strings.Index(j, "\n----\n"); k >= 0 {
		j = j[:k]
	}
	var m struct {
		Apps map[string]json.RawMessage `json:"apps"`
	}
	if err := json.Unmarshal([]byte(j), &m); err != nil {
		return nil, false
	}
	var out []string
	for k := range m.Apps {
		if i := strings.LastIndex(k, "."); i >= 0 {
			k = k[i+1:]
		}
		out = append(out, k)
	}
	sort.Strings(out)
	return out, true
}

func firstDiff(a, b string) string {
	al, bl := strings.Split(a, "\n"), strings.Split(b, "\n")
	for i := 0; i < len(al) && i < len(bl); i++ {
		if al[i] != bl[i] {
			return fmt.Sprintf("line %d: %q vs %q", i+1, core.Trunc(al[i], 160), core.Trunc(bl[i], 160))
		}
	}
	return fmt.Sprintf("%d vs %d lines", len(al), len(bl))
}

// ReplayFile for compilesim.
type ReplayFile struct {
	Property string `json:"property"`
	Engine   string `json:"engine"`
	Mode     string `json:"mode"`
	Class    string `json:"class"`
	Detail   string `json:"detail"`
	Plan     *Plan  `json:"plan"`
}

func makePicker(pl *Plan, r *core.Rand) core.Picker {
	switch pl.Policy {
	case "waves":
		return core.Waves{}
	case "uniform":
		return core.Uniform{R: r}
	case "trace":
		return &core.Trace{Keys: pl.Picks}
	}
	return &core.Sticky{R: r, Stay: pl.Stay}
}

func worker(t *testing.T, c core.Cfg) {
	start := time.Now()
	install()
	race := c.Mode == "race"
	part := &core.Partial{Worker: c.Worker, Counters: core.Counters{}}
	nw := int(core.EnvInt("VERIF_WORKERS", 1))
	deadline := start.Add(time.Duration(c.BudgetS * float64(time.Second)))
	all := corpus()
	seq := map[*Source]string{}
	slow := map[*Source]bool{}
	slowLimit := 1500 * time.Millisecond
	seqOf := func(s *Source) string {
		if v, ok := seq[s]; ok {
			return v
		}
		t0 := time.Now()
		v := compile(s) // alone, no scheduler installed
		if time.Since(t0) > slowLimit {
			// arr.ai-based foreign importers take seconds (tens under -race): such a source
			// is compiled alone once and left out of concurrent plans
			slow[s] = true
			part.Counters.Inc("sources_too_slow_for_concurrent_plans")
		}
		if v2 := compile(s); v2 != v && !(strings.HasPrefix(v, "ERROR") && strings.HasPrefix(v2, "ERROR")) {
			part.Violations = append(part.Violations, core.ViolationRec{Class: "sequential-recompile-differs",
				Detail: fmt.Sprintf("%s compiled twice in a row gives different results: %s", s.Name, firstDiff(v, v2))})
		}
		seq[s] = v
		return v
	}
	distinct := map[uint64]bool{}
	classSeen := map[string]bool{}
	finished := false
	defer func() {
		// also runs when the testing package ends the goroutine (it fails a test in which
		// the race detector reported, via runtime.Goexit): the partial must still be written
		if !finished {
			part.Counters.Inc("worker_ended_early_by_testing_package")
			for h := range distinct {
				part.Distinct = append(part.Distinct, h)
			}
			part.WallS = time.Since(start).Seconds()
			_ = core.WriteJSON(c.PartPath(c.Worker), part)
		}
	}()
	if !race {
		// the same generated sources in every worker process, compiled alone: the master
		// compares the results across the processes, which run with 1, 4 and 16 processors
		// (a compilation must not choose its algorithm by the number of processors)
		part.Digests = map[string]uint64{}
		for k, src := range sharedSources(c.Seed) {
			res := compile(src)
			if strings.HasPrefix(res, "ERROR") {
				res = "ERROR" // which of several errors is reported may depend on timing; that it fails may not
			}
			part.Digests[fmt.Sprint(k)] = core.HashStrings(res)
		}
		part.Counters.Add("sources_compiled_in_every_process", int64(len(part.Digests)))
	}
	twinsDone := race || c.Worker != 0
	swaggerDone := !(race && c.Worker == 1%nw)
	crowdDone := !(c.Worker == 1 && !race) && !(race && c.Worker == 0 && c.Tier == "thorough")
	for g := c.Worker; time.Now().Before(deadline) && len(part.Violations) < 6; g += nw {
		seed := core.Derive(c.Seed, "C07", c.Mode, "plan", fmt.Sprint(g))
		r := core.NewRand(seed)
		pl := &Plan{Seed: seed}
		if !crowdDone {
			// once per run: a crowd of 66-96 tiny compilations at once (the property's
			// quantifier goes to 64 goroutines): thresholds on the number of live lexers,
			// parsers or pooled objects only show in a crowd
			crowdDone = true
			cp := &Plan{Seed: seed, Policy: "uniform", Quantum: 1}
			if race {
				cp.Policy, cp.Quantum = "waves", 3
			}
			sp := specials(seed)
			n := r.Range(66, 96)
			for i := 0; i < n; i++ {
				if i%3 == 0 {
					cp.Sources = append(cp.Sources, sp[i%len(sp)])
				} else {
					cp.Sources = append(cp.Sources, generated(core.Derive(seed, "crowd", fmt.Sprint(i%7)), false))
				}
			}
			if !race {
				for _, s := range cp.Sources {
					seqOf(s)
				}
			}
			o := runPlan(t, cp, makePicker(cp, r.Fork()))
			if race {
				for _, s := range cp.Sources {
					seqOf(s)
				}
			}
			part.Evaluations++
			part.Cases++
			part.Counters.Inc("crowd_plans")
			part.Counters.Add("crowd_tasks", int64(n))
			for _, v := range check(cp, o, seq, part.Counters) {
				p := filepath.Join(core.ReplayDir(), fmt.Sprintf("C07-%s-crowd-%s-%d.json", c.Mode, core.SafeName(v.Class), seed))
				cp.Policy, cp.Picks = "trace", o.Picks
				_ = core.WriteJSON(p, ReplayFile{Property: "C07", Engine: "compilesim", Mode: c.Mode, Class: v.Class, Detail: v.Detail, Plan: cp})
				part.Violations = append(part.Violations, core.ViolationRec{Class: v.Class, Detail: v.Detail + " [crowd plan]", Replay: p, Seed: seed})
				break
			}
		}
		if !swaggerDone {
			// once per run, under the race detector: several compilations that each convert a
			// Swagger document, all released at once.  The converters (kin-openapi, arr.ai)
			// keep process-wide settings; nothing a compilation does may write them.
			swaggerDone = true
			sp := &Plan{Seed: seed, Sources: swaggerCrowd(), Policy: "waves", Quantum: 3}
			o := runPlan(t, sp, makePicker(sp, r.Fork()))
			for _, s := range sp.Sources {
				seqOf(s)
			}
			part.Evaluations++
			part.Cases++
			part.Counters.Inc("swagger_crowd_plans")
			for _, v := range check(sp, o, seq, part.Counters) {
				p := filepath.Join(core.ReplayDir(), fmt.Sprintf("C07-%s-swagger-%s-%d.json", c.Mode, core.SafeName(v.Class), seed))
				sp.Policy, sp.Picks = "trace", o.Picks
				_ = core.WriteJSON(p, ReplayFile{Property: "C07", Engine: "compilesim", Mode: c.Mode, Class: v.Class, Detail: v.Detail, Plan: sp})
				part.Violations = append(part.Violations, core.ViolationRec{Class: v.Class, Detail: v.Detail + " [swagger crowd]", Replay: p, Seed: seed})
				break
			}
		}
		if !twinsDone {
			// once per run: the slow foreign-import path (an arr.ai conversion takes seconds)
			twinsDone = true
			tp := &Plan{Seed: seed, Sources: foreignTwins(), Policy: "uniform", Quantum: 1}
			o := runPlan(t, tp, makePicker(tp, r.Fork()))
			part.Evaluations++
			part.Cases++
			part.Counters.Inc("foreign_twin_plans")
			for _, s := range tp.Sources {
				seqOf(s) // compiled twice more, alone: repeated compilations must agree
			}
			for _, v := range check(tp, o, seq, part.Counters) {
				p := filepath.Join(core.ReplayDir(), fmt.Sprintf("C07-%s-%s-%d.json", c.Mode, core.SafeName(v.Class), seed))
				tp.Policy, tp.Picks = "trace", o.Picks
				_ = core.WriteJSON(p, ReplayFile{Property: "C07", Engine: "compilesim", Mode: c.Mode, Class: v.Class, Detail: v.Detail, Plan: tp})
				part.Violations = append(part.Violations, core.ViolationRec{Class: v.Class, Detail: v.Detail, Replay: p, Seed: seed})
				break
			}
		}
		k := r.Range(2, 6)
		if c.Tier == "thorough" && r.Chance(0.2) {
			k = r.Range(6, 12)
			if r.Chance(0.25) {
				k = r.Range(16, 32)
			}
		}
		var pool []*Source
		if r.Chance(0.35) {
			sp := specials(seed)
			a := sp[r.Intn(len(sp))]
			pool = append(pool, a, a) // the same special twice, and maybe another one
			if r.Chance(0.5) {
				pool = append(pool, sp[r.Intn(len(sp))])
			}
		}
		for i := len(pool); i < k; i++ {
			switch {
			case len(pool) > 0 && r.Chance(0.25): // the same source in several tasks
				pool = append(pool, pool[r.Intn(len(pool))])
			case r.Chance(0.3):
				pool = append(pool, generated(core.Derive(seed, "gen", fmt.Sprint(i)), r.Chance(0.3)))
			default:
				pool = append(pool, all[r.Intn(len(all))])
			}
		}
		// Cooperative mode compiles every source alone first (the reference result, and
		// slow sources are weeded out).  Race mode does it the other way round: shared
		// caches that are filled lazily (ANTLR's DFA) must be cold when the tasks run in
		// parallel, or the racing writes never happen.
		if !race {
			var kept []*Source
			for _, s := range pool {
				if strings.HasPrefix(seqOf(s), "PANIC") {
					part.Counters.Inc("sequential_panics") // C01's business; still compared
				}
				if !slow[s] {
					kept = append(kept, s)
				}
			}
			if len(kept) < 2 {
				continue
			}
			pool, k = kept, len(kept)
		} else {
			var kept []*Source
			for _, s := range pool {
				if !slow[s] && !importsForeignSpec(s) {
					kept = append(kept, s)
				}
			}
			if len(kept) < 2 {
				continue
			}
			pool, k = kept, len(kept)
		}
		pl.Sources = pool
		if race {
			pl.Policy = "waves"
			pl.Quantum = []int64{0, 0, 1, 3, 17, 200}[r.Intn(6)]
		} else {
			pl.Policy = "sticky"
			pl.Stay = []float64{0, 0.5, 0.9, 0.99, 0.999}[r.Intn(5)]
			pl.Quantum = 1
			if r.Chance(0.15) {
				pl.Policy = "uniform"
			}
		}
		if r.Chance(0.25) {
			pl.ClockJump = r.Range(2, 60) // fault kind clock-jump
		}
		o := runPlan(t, pl, makePicker(pl, r.Fork()))
		if race {
			for _, s := range pool {
				seqOf(s)
			}
		}
		part.Evaluations++
		part.Cases++
		part.Steps += int64(o.Steps)
		if o.ClockJumps > 0 {
			part.Counters.Add("fault_fired_clock-jump", int64(o.ClockJumps))
			part.Counters.Inc("plans_with_clock_jumps")
		}
		part.Counters.Inc("policy_" + pl.Policy)
		part.Counters.Add("context_switches", int64(o.Switches))
		part.Counters.Add("tasks", int64(k))
		if o.MaxParked >= 2 {
			part.Counters.Inc("runs_with_two_or_more_tasks_parked")
		}
		if race {
			part.Counters.Inc(fmt.Sprintf("wave_quantum_%d", pl.Quantum))
		}
		if o.Choices > 0 || race {
			var names []string
			for _, s := range pool {
				names = append(names, s.Name)
			}
			distinct[core.HashStrings(append(names, fmt.Sprint(core.HashStrings(o.Picks...)), fmt.Sprint(pl.Quantum))...)] = true
		}
		if len(part.Samples) < 1 && g >= 2*nw {
			var names []string
			for _, s := range pool {
				names = append(names, s.Name)
			}
			b, _ := json.Marshal(map[string]interface{}{"seed": seed, "mode": c.Mode, "tasks": names, "policy": pl.Policy, "stay": pl.Stay, "quantum": pl.Quantum,
				"scheduler_steps": o.Steps, "context_switches": o.Switches, "first_picks": o.Picks[:min(12, len(o.Picks))]})
			part.Samples = append(part.Samples, b)
		}
		vsNow := check(pl, o, seq, part.Counters)
		// determinism twin (cooperative mode): replay the trace, expect identical results.
		// Skipped when the run already shows a violation: a tree that leaks state between
		// compilations is not replayable, and that is the tree's fault, not the harness's.
		if !race && part.Evaluations%8 == 1 && len(vsNow) == 0 {
			tw := runPlan(t, pl, &core.Trace{Keys: o.Picks})
			if tw.Sched.Diverged != "" {
				part.HarnessErr = "twin diverged: " + tw.Sched.Diverged
				break
			}
			if strings.Join(tw.Results, "\x00") != strings.Join(o.Results, "\x00") {
				// the same sources under the same schedule gave different results: with a
				// replayable schedule (the trace was followed to the end) that is the
				// compiler not being a function of its input, i.e. the property itself
				for i := range tw.Results {
					if tw.Results[i] != o.Results[i] {
						vsNow = append(vsNow, V{"same-schedule-different-result", fmt.Sprintf("task %d (%s): two executions of the same plan under the same schedule differ: %s",
							i, pl.Sources[i].Name, firstDiff(o.Results[i], tw.Results[i]))})
						break
					}
				}
			}
			if len(vsNow) == 0 {
				part.Twins++
			}
		}
		for _, v := range vsNow {
			part.Counters.Inc("raw_violation_" + v.Class)
			if classSeen[v.Class] {
				continue
			}
			classSeen[v.Class] = true
			rp := *pl
			if !race {
				// reproduce twice from the recorded trace
				rp.Policy, rp.Picks = "trace", o.Picks
				okc := 0
				for n := 0; n < 2; n++ {
					o2 := runPlan(t, &rp, makePicker(&rp, nil))
					for _, v2 := range check(&rp, o2, seq, core.Counters{}) {
						if v2.Class == v.Class {
							okc++
							break
						}
					}
				}
				if okc < 2 {
					// the observation itself (a result that differs from the sequential one)
					// does not depend on the schedule being replayable; report it, and say so
					v.Detail += fmt.Sprintf(" [reproduced %d/2 times from its trace: the tree keeps hidden state between compilations]", okc)
					part.Counters.Inc("violations_not_exactly_replayable")
				} else {
					rp = *minimise(t, &rp, v.Class, seq)
				}
			}
			p := filepath.Join(core.ReplayDir(), fmt.Sprintf("C07-%s-%s-%d.json", c.Mode, core.SafeName(v.Class), seed))
			_ = core.WriteJSON(p, ReplayFile{Property: "C07", Engine: "compilesim", Mode: c.Mode, Class: v.Class, Detail: v.Detail, Plan: &rp})
			part.Violations = append(part.Violations, core.ViolationRec{Class: v.Class, Detail: v.Detail, Replay: p, Seed: seed})
		}
		if part.HarnessErr != "" {
			break
		}
	}
	for h := range distinct {
		part.Distinct = append(part.Distinct, h)
	}
	part.WallS = time.Since(start).Seconds()
	finished = true
	if err := core.WriteJSON(c.PartPath(c.Worker), part); err != nil {
		core.Fatal2("write partial: %v", err)
	}
}

// minimise drops tasks and shortens the trace while the class persists.
func minimise(t *testing.T, pl *Plan, class string, seq map[*Source]string) *Plan {
	has := func(p *Plan) (bool, []string) {
		tr := &core.Trace{Keys: p.Picks, Tolerant: true}
		o := runPlan(t, p, tr)
		for _, v := range check(p, o, seq, core.Counters{}) {
			if v.Class == class {
				return true, o.Picks
			}
		}
		return false, nil
	}
	cur := *pl
	stop := time.Now().Add(30 * time.Second)
	for i := len(cur.Sources) - 1; i >= 0 && len(cur.Sources) > 1 && time.Now().Before(stop); i-- {
		t2 := cur
		t2.Sources = append(append([]*Source(nil), cur.Sources[:i]...), cur.Sources[i+1:]...)
		if ok, picks := has(&t2); ok {
			t2.Picks = picks
			cur = t2
		}
	}
	for cut := len(cur.Picks) / 2; cut >= 1 && time.Now().Before(stop); cut /= 2 {
		for len(cur.Picks) > cut {
			t2 := cur
			t2.Picks = cur.Picks[:len(cur.Picks)-cut]
			if ok, _ := has(&t2); ok {
				cur = t2
			} else {
				break
			}
		}
	}
	return &cur
}

func replay(t *testing.T, c core.Cfg) int {
	var rf ReplayFile
	if err := core.ReadJSON(c.Replay, &rf); err != nil {
		core.Fatal2("replay file: %v", err)
	}
	if rf.Mode == "race" {
		fmt.Println("replay of a race report: re-run the race sub-check with the recorded seed (VERIF_SEED) — the wave plan is a function of it")
		return 0
	}
	seq := map[*Source]string{}
	for _, s := range rf.Plan.Sources {
		if _, ok := seq[s]; !ok {
			seq[s] = compile(s)
		}
	}
	o := runPlan(t, rf.Plan, &core.Trace{Keys: rf.Plan.Picks, Tolerant: true})
	for _, v := range check(rf.Plan, o, seq, core.Counters{}) {
		if v.Class == rf.Class {
			fmt.Printf("VIOLATION property=C07 replay=%s\n  detail: [%s] %s\n", c.Replay, v.Class, core.OneLine(core.Trunc(v.Detail, 600)))
			return 1
		}
	}
	fmt.Printf("replay: class %q did not recur\n", rf.Class)
	return 0
}

func TestEngine(t *testing.T) {
	c := core.LoadCfg()
	if c.Property != "C07" {
		core.Fatal2("compilesim serves C07, not %q", c.Property)
	}
	if c.Replay != "" {
		core.StartWatchdog(300*time.Second, nil)
		os.Exit(replay(t, c))
	}
	if c.Worker < 0 {
		os.Exit(master(c))
	}
	core.QuietStderr()
	core.StartWatchdog(300*time.Second, nil)
	worker(t, c)
}

// master runs the three sub-checks of C07 side by side: (a) seeded token-granularity
// interleaving (this binary), (b) parallel waves under the race detector (the -race build
// of this binary), (c) map-order determinism of the compile (ordersim restricted to the
// pb encodings).
func master(c core.Cfg) int {
	start := time.Now()
	raceBin, orderBin := os.Getenv("VERIF_BIN_RACE"), os.Getenv("VERIF_BIN_ORDER")
	if raceBin == "" || orderBin == "" {
		core.Fatal2("VERIF_BIN_RACE / VERIF_BIN_ORDER not set (run through ./check)")
	}
	n := c.Workers
	na, nb, nc := n*6/14, n*5/14, n*3/14
	if na < 1 {
		na = 1
	}
	if nb < 1 {
		nb = 1
	}
	if nc < 1 {
		nc = 1
	}
	budget := func(int) []string { return nil }
	ca, cb, cc := c, c, c
	ca.Mode = "interleave"
	cb.Mode, cb.Bin = "race", raceBin
	cc.Mode, cc.Bin = "maporder", orderBin
	var pa, pb, pc []*core.Partial
	done := make(chan struct{}, 3)
	go func() {
		pa = core.SpawnWorkers(ca, na, budget, func(i int) int { return []int{1, 4, 16}[i%3] })
		done <- struct{}{}
	}()
	go func() {
		pb = core.SpawnWorkers(cb, nb, func(i int) []string {
			return []string{fmt.Sprintf("GORACE=halt_on_error=0 log_path=%s/race-%d", c.OutDir, i)}
		}, func(i int) int { return []int{4, 16, 2, 8}[i%4] })
		done <- struct{}{}
	}()
	go func() {
		pc = core.SpawnWorkers(cc, nc, func(int) []string { return []string{"VERIF_ONLY_GEN=pb-"} }, func(int) int { return 1 })
		done <- struct{}{}
	}()
	// sub-check (d): a command-line run with closure flags loops in the process while
	// another command-line run compiles (what a run sets must not leak into the other)
	cd := c
	cd.Mode, cd.Bin = "cli", orderBin
	pd := core.SpawnWorkers(cd, 1, budget, func(int) int { return 4 })
	for i := 0; i < 3; i++ {
		<-done
	}
	m := core.Merge(append(append(append(pa, pb...), pc...), pd...))
	// the shared sources: every interleave worker must have the same result for each
	for k := 0; k < len(sharedSources(c.Seed)); k++ {
		key := fmt.Sprint(k)
		for _, p := range pa[1:] {
			if len(pa[0].Digests) == 0 || len(p.Digests) == 0 || p.Digests[key] == pa[0].Digests[key] {
				continue
			}
			src := sharedSources(c.Seed)[k]
			rp := filepath.Join(core.ReplayDir(), fmt.Sprintf("C07-gomaxprocs-%d-%s.json", c.Seed, key))
			_ = core.WriteJSON(rp, map[string]interface{}{"property": "C07", "engine": "compilesim", "class": "result-depends-on-process",
				"note": fmt.Sprintf("compiled alone, this source gives different results in worker %d (GOMAXPROCS %d) and worker %d (GOMAXPROCS %d); re-run the check with the same VERIF_SEED", pa[0].Worker, pa[0].GoMaxProcs, p.Worker, p.GoMaxProcs),
				"source": src})
			m.Violations = append(m.Violations, core.ViolationRec{Class: "result-depends-on-process", Replay: rp,
				Detail: fmt.Sprintf("source %s (max depth %d) compiled alone gives different results in two worker processes (GOMAXPROCS %d and %d)", src.Name, src.Depth, pa[0].GoMaxProcs, p.GoMaxProcs)})
			k = 1 << 20
			break
		}
	}
	ma, mb, mc := core.Merge(pa), core.Merge(pb), core.Merge(pc)
	// race reports
	logs, _ := filepath.Glob(filepath.Join(c.OutDir, "race-*"))
	sort.Strings(logs)
	races := 0
	for _, lf := range logs {
		b, err := os.ReadFile(lf)
		if err != nil || !bytes.Contains(b, []byte("WARNING: DATA RACE")) {
			continue
		}
		n := bytes.Count(b, []byte("WARNING: DATA RACE"))
		races += n
		if races == n { // first log with a report: keep it as the replay artefact
			p := filepath.Join(core.ReplayDir(), fmt.Sprintf("C07-race-report-%d.txt", c.Seed))
			_ = os.WriteFile(p, b, 0o644)
			m.Violations = append(m.Violations, core.ViolationRec{Class: "data-race", Replay: p,
				Detail: fmt.Sprintf("%d race report(s); first: %s", n, core.OneLine(core.Trunc(string(b), 900)))})
		}
	}
	rule := "one evaluation = one run of k concurrent compilations (k=2..6, up to 12 in the thorough tier; corpus files and generated multi-file models, the same source possibly in several tasks): " +
		"(a) inside one synctest bubble with a park at every token fetch and every claim/convert, the scheduler picking which task proceeds; (b) the same under the race detector with all parked tasks released at once in waves of q tokens; " +
		"(c) pb output of each source under three map-order seeds. Non-trivial: >= 2 tasks were parked at some step (a), every run (b: real parallelism), >= 1 map of >= 2 entries iterated (c). distinct = distinct (task list, pick trace / quantum) hashes, plus distinct (c) case ids"
	extra := map[string]interface{}{
		"sub_a_interleaving_runs":   ma.Evaluations,
		"sub_a_scheduler_steps":     ma.Steps,
		"sub_a_twin_runs_identical": ma.Twins,
		"sub_b_race_runs":           mb.Evaluations,
		"sub_b_race_reports":        races,
		"sub_c_maporder_executions": mc.Evaluations,
		"sub_c_cases":               mc.Cases,
		"simulated_time":            "logical scheduler steps only",
		"components_real":           []string{"parse.Parser.Parse, ANTLR lexer/parser incl. lexerStates, threadsafe constructors, importers, pbutil encoders"},
		"components_stub":           []string{"retriever (always fails: no remote imports)", "simulated disk for generated models; corpus read from the real disk", "logrus exit function"},
		"worker_processes":          map[string]int{"interleave": na, "race": nb, "maporder": nc},
	}
	return core.Finish(c, "exploration", m, rule, extra, []string{
		"between two token fetches a task runs uninterrupted (seams: tok, claim, convert)",
		"the race detector's verdict is only as deterministic as its shadow memory; a report is replayed by re-running the wave plan of the same VERIF_SEED",
		"no lexer state may outlive its parse (conservation created == deleted), because a stale entry is keyed by an address the allocator may reuse",
	}, start)
}
