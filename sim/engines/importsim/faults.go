package importsim

import (
	"fmt"
	"strings"

	"verif/sim/core"
)

var certainKinds = []string{"enoent", "eacces", "eio-open", "eio-read", "garbage-import", "garbage-body", "garbage-bracket", "bad-escape"}
var uncertainKinds = []string{"truncate", "flip", "close-error", "empty"}

// planFaults draws 1..3 faults and applies the content ones to the delivered text.
func planFaults(r *core.Rand, w *Workload) {
	n := len(w.Files)
	k := 1
	if r.Chance(0.3) {
		k = 2
	}
	if r.Chance(0.1) {
		k = 3
	}
	if r.Chance(0.12) {
		// mass failure: most files of the widest import list fail at once
		wide := 0
		for i, f := range w.Files {
			if len(f.Imports) > len(w.Files[wide].Imports) {
				wide = i
			}
		}
		seenT := map[int]bool{}
		for _, im := range w.Files[wide].Imports {
			f := w.Files[im.To]
			if seenT[im.To] || im.To == wide || im.To == 0 || f.Kind != "sysl" || r.Chance(0.2) {
				continue
			}
			seenT[im.To] = true
			ft := Fault{File: im.To, Certain: true, Kind: []string{"enoent", "eio-open", "garbage-import", "eacces"}[r.Intn(4)]}
			if f.Remote {
				ft.Kind = "retrieve-error"
			}
			applyContentFault(f, &ft)
			w.Faults = append(w.Faults, ft)
		}
		if len(w.Faults) > 0 {
			return
		}
	}
	// prefer targets with siblings in flight: files that are not the only import of
	// their parent, and the last file of a cycle
	weight := make([]int, n)
	for _, f := range w.Files {
		for _, im := range f.Imports {
			weight[im.To] += 1
			if len(f.Imports) >= 2 {
				weight[im.To] += 3
			}
		}
	}
	weight[0] += 1
	total := 0
	for _, x := range weight {
		total += x
	}
	pickFile := func() int {
		x := r.Intn(total)
		for i, wt := range weight {
			if x < wt {
				return i
			}
			x -= wt
		}
		return 0
	}
	seen := map[int]bool{}
	for len(w.Faults) < k && len(seen) < n {
		i := pickFile()
		if seen[i] {
			if r.Chance(0.5) {
				continue
			}
			i = r.Intn(n)
			if seen[i] {
				continue
			}
		}
		seen[i] = true
		f := w.Files[i]
		ft := Fault{File: i}
		if r.Chance(0.75) {
			ft.Certain = true
			if f.Kind == "dat" {
				ft.Kind = "undetectable-format"
			} else if f.Kind != "sysl" {
				ft.Kind = []string{"enoent", "eacces", "eio-open", "eio-read", "bad-foreign"}[r.Intn(5)]
			} else {
				ft.Kind = certainKinds[r.Intn(len(certainKinds))]
			}
			if f.Remote && (ft.Kind == "enoent" || ft.Kind == "eacces" || ft.Kind == "eio-open" || ft.Kind == "eio-read") {
				ft.Kind = "retrieve-error"
			}
		} else {
			ft.Kind = uncertainKinds[r.Intn(len(uncertainKinds))]
			if f.Remote && ft.Kind == "close-error" {
				ft.Kind = "truncate"
			}
		}
		if ft.Kind == "bad-foreign" {
			ft.Param = r.Intn(3)
		}
		if ft.Kind == "retrieve-error" || ft.Kind == "eio-open" {
			ft.Param = r.Intn(4) // which error identity the failing call returns
		}
		switch ft.Kind {
		case "eio-read", "truncate", "flip":
			if len(f.Text) > 0 {
				ft.Param = r.Intn(len(f.Text))
			}
		}
		applyContentFault(f, &ft)
		w.Faults = append(w.Faults, ft)
	}
}

const garbageLine = "@@@ ??? !!! :::\n"

func applyContentFault(f *FileSpec, ft *Fault) {
	switch ft.Kind {
	case "garbage-import":
		// a line in the import section that no grammar rule accepts
		f.Text = "import :::\n" + f.Text
	case "garbage-body":
		f.Text = f.Text + garbageLine
	case "bad-escape":
		// grammatical, but with an invalid URL escape in a call target: a bad file all the same
		f.Text = f.Text + fmt.Sprintf("Esc%d:\n    E:\n        Shared <- x%%zz\n", f.ID)
	case "garbage-bracket":
		// an attribute list that is never closed: the file ends inside '['
		f.Text = f.Text + "Tail [~x, y=\"z\"\n"
	case "bad-foreign":
		switch {
		case f.Kind == "swagger" || f.Kind == "openapi3":
			f.Text = "{{{ not yaml ::: [\n"
		case f.Kind == "pbjson" && ft.Param%3 == 1:
			// well-formed JSON, but a document of some other format
			f.Text = `{"openapi": "3.0.0", "info": {"title": "not a sysl model", "version": "1"}, "paths": {}}`
		case f.Kind == "pbjson" && ft.Param%3 == 2:
			f.Text = `{"appz": {"X": {"name": {"part": ["X"]}}}}` // misspelt key
		case f.Kind == "textpb" && ft.Param%3 != 0:
			f.Text = "schema_version: 3\nrecords: {\n id: 7\n}\n" // text-proto of another schema
		default:
			f.Text = "\x00\x01 not a model {{{"
		}
	case "truncate":
		if ft.Param > len(f.Text) {
			ft.Param = len(f.Text)
		}
		f.Text = f.Text[:ft.Param]
	case "empty":
		f.Text = ""
	case "flip":
		if len(f.Text) > 0 {
			b := []byte(f.Text)
			if ft.Param >= len(b) {
				ft.Param = len(b) - 1
			}
			b[ft.Param] ^= 0x20
			f.Text = string(b)
		}
	}
}

func faultFor(w *Workload, file int, kinds ...string) *Fault {
	for i := range w.Faults {
		if w.Faults[i].File != file {
			continue
		}
		for _, k := range kinds {
			if w.Faults[i].Kind == k {
				return &w.Faults[i]
			}
		}
	}
	return nil
}

func hasBuggify(w *Workload, name string) bool {
	for _, b := range w.Buggify {
		if b == name {
			return true
		}
	}
	return false
}

func stripVersion(s string) string {
	if i := strings.Index(s, "@"); i >= 0 {
		return s[:i]
	}
	return s
}
