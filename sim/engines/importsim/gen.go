// Package importsim drives the real parse.Parser.Parse over a simulated disk and a
// simulated retriever under the cooperative scheduler (properties C05 and C06).
package importsim

import (
	"fmt"
	"path"
	"sort"
	"strings"

	"verif/sim/core"
)

// ImportSpec is one import line of a generated file.
type ImportSpec struct {
	To    int    `json:"to"`
	Spell string `json:"spell"` // text after "import "
	As    string `json:"as,omitempty"`
	Ver   string `json:"ver,omitempty"`  // explicit version in the spelling ("" = none)
	Mode  string `json:"mode,omitempty"` // import mode hint after the name ("~swagger"; "" = none)
}

// FileSpec is one file of the workload.
type FileSpec struct {
	ID       int          `json:"id"`
	Path     string       `json:"path"` // canonical read path without version
	Remote   bool         `json:"remote,omitempty"`
	Kind     string       `json:"kind"` // sysl | swagger | openapi3 | pbjson | textpb | proto
	Imports  []ImportSpec `json:"imports,omitempty"`
	LongLine int          `json:"long_line,omitempty"` // a comment line of that many bytes before import number (LongLine-1)
	// Layout varies how the same import statements are written (bits 0-1: what follows the keyword - blank, tab, two
	// blanks, blank and tab; 4: the first line of the file is indented; 8: lines of white space only and indented
	// comments between the statements; 16: later lines that start with the word import without being statements; 32: the first application's name starts with the letters import)
	Layout int    `json:"layout,omitempty"`
	Text   string `json:"text"` // delivered content (after content faults)
}

// Fault is one entry of the fault plan.
type Fault struct {
	File  int    `json:"file"`
	Kind  string `json:"kind"`
	Param int    `json:"param,omitempty"`
	// Certain: the compile must fail and name the file.
	Certain bool `json:"certain"`
}

// Workload is everything a run needs except the schedule.
type Workload struct {
	Seed       uint64      `json:"seed"`
	Family     string      `json:"family"` // plain | divergent | conflict
	Template   string      `json:"template"`
	Files      []*FileSpec `json:"files"`
	MaxDepth   int         `json:"max_depth"`
	NoVerCheck bool        `json:"no_different_version_check,omitempty"` // --no-different-version-check
	RootArg    string      `json:"root_arg,omitempty"`                   // how the root module is spelled when handed to Parse ("" = its plain path)
	Faults     []Fault     `json:"faults,omitempty"`
	Buggify    []string    `json:"buggify,omitempty"`
	RemoteV    string      `json:"remote_version,omitempty"`
}

const repoPrefix = "//github.com/org/repo"

var localDirs = []string{"", "", "d1", "d1/d2", "e", "e.v"}

// Shape: a list of edges plus attributes, produced by a named template or uniformly.
type shape struct {
	n     int
	edges [][]int // edges[i] = ordered import list (may contain duplicates)
	name  string
	depth int // a depth limit that belongs to the template (0 = drawn at random)
}

func randomShape(r *core.Rand, n int) shape {
	s := shape{n: n, edges: make([][]int, n), name: "uniform"}
	// a spanning arborescence so that everything is reachable, plus extra edges
	for i := 1; i < n; i++ {
		p := r.Intn(i)
		s.edges[p] = append(s.edges[p], i)
	}
	extra := r.Intn(n + 2)
	for k := 0; k < extra; k++ {
		a, b := r.Intn(n), r.Intn(n)
		s.edges[a] = append(s.edges[a], b) // may be a self loop, back edge, duplicate
	}
	for i := range s.edges {
		e := s.edges[i]
		r.Shuffle(len(e), func(a, b int) { e[a], e[b] = e[b], e[a] })
	}
	return s
}

// templates that make rare conditions common
func templateShape(r *core.Rand) shape {
	switch r.Intn(10) {
	case 9: // a file on the last level inside a depth limit imports a shallower file: its
		// import list still decides the merge order (0->1,4,3 ; 1->2 ; 2->3 ; limit 3)
		return shape{n: 5, name: "back-edge-at-the-limit", edges: [][]int{{1, 4, 3}, {2}, {3}, {}, {}}, depth: 3}
	case 0: // short and long path to one file, with a tail below it
		// 0->1->2->3->4 ; 0->5->3 ; (design experiment F-C05-1)
		return shape{n: 6, name: "short-long", edges: [][]int{{1, 5}, {2}, {3}, {4}, {}, {3}}}
	case 1: // diamond over a cycle
		return shape{n: 5, name: "diamond-cycle", edges: [][]int{{1, 2}, {3}, {3}, {4}, {1}}}
	case 2: // self import and 2-cycle
		return shape{n: 3, name: "self-2cycle", edges: [][]int{{0, 1}, {0, 2, 1}, {1}}}
	case 3: // the same file imported twice by one parent, and by everybody
		return shape{n: 4, name: "dup-import", edges: [][]int{{1, 1, 2}, {3, 3}, {3, 1}, {}}}
	case 4: // long cycle through the root
		n := r.Range(3, 7)
		s := shape{n: n, name: "long-cycle", edges: make([][]int, n)}
		for i := 0; i < n; i++ {
			s.edges[i] = []int{(i + 1) % n}
		}
		return s
	case 5: // wide fan-out with shared leaves
		n := r.Range(4, 10)
		s := shape{n: n, name: "fan", edges: make([][]int, n)}
		for i := 1; i < n-1; i++ {
			s.edges[0] = append(s.edges[0], i)
			s.edges[i] = append(s.edges[i], n-1)
		}
		return s
	case 6: // two long chains meeting at several points
		s := shape{n: 8, name: "ladder", edges: [][]int{{1, 4}, {2}, {3, 6}, {7}, {5}, {2, 6}, {7}, {}}}
		return s
	case 7: // two directories with byte-identical import blocks that mean different files
		return shape{n: 5, name: "twin-dirs", edges: [][]int{{1, 2}, {3}, {4}, {}, {}}}
	default: // grandchild can overtake a direct import
		return shape{n: 5, name: "overtake", edges: [][]int{{1, 2}, {2, 3}, {4}, {2}, {}}}
	}
}

// Gen builds a workload from a seed.  Everything random about the workload is drawn here,
// before the bubble is entered.
func Gen(seed uint64, faulty bool) *Workload {
	r := core.NewRand(seed)
	w := &Workload{Seed: seed, Family: "plain"}
	var sh shape
	if r.Chance(0.45) {
		sh = templateShape(r)
	} else {
		sh = randomShape(r, r.Range(1, 10))
	}
	w.Template = sh.name
	n := sh.n

	// family
	f := r.Float()
	switch {
	case f < 0.12 && n >= 3:
		w.Family = "divergent"
	case f < 0.26 && n >= 3:
		w.Family = "conflict"
	}

	// which files are remote: a down-closed set (a remote file can only import remote files)
	remote := make([]bool, n)
	if r.Chance(0.45) && n >= 2 {
		start := r.Range(1, n-1)
		var mark func(i int)
		mark = func(i int) {
			if remote[i] {
				return
			}
			remote[i] = true
			for _, j := range sh.edges[i] {
				mark(j)
			}
		}
		mark(start)
		if remote[0] { // the root must stay local: give up on remotes for this graph
			for i := range remote {
				remote[i] = false
			}
		}
	}
	w.RemoteV = []string{"v1", "master", "main", "develop", "feature/x", "release/1.0"}[r.Intn(6)]
	if w.Family == "divergent" {
		w.RemoteV = []string{"master", "main", "develop"}[r.Intn(3)]
	}

	// paths
	used := map[string]bool{}
	for i := 0; i < n; i++ {
		fs := &FileSpec{ID: i, Kind: "sysl", Remote: remote[i]}
		for try := 0; ; try++ {
			name := fmt.Sprintf("f%d.sysl", i)
			if i > 0 && try < 3 && r.Chance(0.3) {
				// the same base name in different directories (or repo directories)
				name = []string{"common.sysl", "model.sysl", "index.sysl", "my%20file.sysl"}[r.Intn(4)]
				if remote[i] && strings.Contains(name, "%") {
					name = "common.sysl" // '%' is not legal in a remote resource path
				}
			}
			if remote[i] {
				d := []string{"", "/dir", "/dir/sub"}[r.Intn(3)]
				fs.Path = repoPrefix + d + "/" + name
			} else {
				d := localDirs[r.Intn(len(localDirs))]
				if i == 0 && strings.Contains(d, " ") {
					d = ""
				}
				fs.Path = path.Join(d, name)
			}
			if !used[fs.Path] {
				used[fs.Path] = true
				break
			}
		}
		w.Files = append(w.Files, fs)
	}

	// a local file that shadows a remote one: <root>/github.com/org/repo/x.sysl next to
	// //github.com/org/repo/x.sysl - two files, told apart by the leading // alone
	if r.Chance(0.15) {
		var loc, rem []int
		for i := 1; i < n; i++ {
			if remote[i] {
				rem = append(rem, i)
			} else {
				loc = append(loc, i)
			}
		}
		if len(loc) > 0 && len(rem) > 0 {
			i, j := loc[r.Intn(len(loc))], rem[r.Intn(len(rem))]
			if p := strings.TrimPrefix(w.Files[j].Path, "//"); !used[p] {
				delete(used, w.Files[i].Path)
				w.Files[i].Path = p
				used[p] = true
				w.Template += "+remote-shadow"
			}
		}
	}

	if sh.name == "twin-dirs" {
		for i := range remote {
			remote[i] = false
		}
		for i, p := range []string{"f0.sysl", "d1/index.sysl", "e/index.sysl", "d1/common.sysl", "e/common.sysl"} {
			w.Files[i].Path, w.Files[i].Remote = p, false
		}
		if r.Chance(0.5) { // the twins on different levels: 0 -> 1 -> 2
			sh.edges[0] = []int{1}
			sh.edges[1] = []int{3, 2}
		}
	}

	// foreign leaves: only files without imports, never the root
	for i := 1; i < n; i++ {
		if len(sh.edges[i]) == 0 && !remote[i] && r.Chance(0.25) {
			k := []string{"pbjson", "textpb"}[r.Intn(2)]
			if faulty && r.Chance(0.15) {
				k = "dat" // an extension no importer recognises: an undetectable foreign format
			}
			// the OpenAPI importers run an arr.ai bundle (seconds per conversion): sampled sparsely
			if r.Chance(0.03) {
				k = []string{"swagger", "openapi3"}[r.Intn(2)]
			}
			fs := w.Files[i]
			fs.Kind = k
			delete(used, fs.Path)
			base := strings.TrimSuffix(fs.Path, ".sysl")
			switch k {
			case "swagger", "openapi3":
				fs.Path = base + ".yaml"
			case "pbjson":
				fs.Path = base + ".pb.json"
			case "textpb":
				fs.Path = base + ".textpb"
			case "dat":
				fs.Path = base + ".dat"
			}
			used[fs.Path] = true
		}
	}

	// imports with spellings
	for i := 0; i < n; i++ {
		for _, j := range sh.edges[i] {
			is := spell(r, w, i, j)
			if sh.name == "twin-dirs" && (j == 3 || j == 4) && w.Files[j].Kind == "sysl" {
				is = ImportSpec{To: j, Spell: "common"} // identical text in both directories
			}
			w.Files[i].Imports = append(w.Files[i].Imports, is)
		}
	}

	// divergent / conflict definitions on one multi-parent (or twice-imported) file
	if w.Family != "plain" {
		if !makeDivergent(r, w) {
			w.Family = "plain"
		}
	}

	// depth limit
	if w.Family == "plain" || w.Family == "divergent" {
		if r.Chance(0.4) {
			w.MaxDepth = r.Range(1, n+1)
		}
		if sh.depth > 0 && r.Chance(0.7) {
			w.MaxDepth = sh.depth + r.Intn(2) // the template's own limit, or one more
		}
	}

	for _, fs := range w.Files {
		fs.Text = render(w, fs)
	}
	// a line of more than 64 KiB ahead of some import statement
	if r.Chance(0.08) {
		for _, f := range w.Files {
			if f.Kind == "sysl" && len(f.Imports) > 0 && r.Chance(0.5) {
				f.LongLine = 1 + r.Intn(len(f.Imports))
				f.Text = render(w, f)
			}
		}
	}
	// the same statements written differently: the pre-scan that decides what to fetch and the
	// lexer have to agree on what an import statement is
	if r.Chance(0.3) {
		for _, f := range w.Files {
			if f.Kind == "sysl" && r.Chance(0.6) {
				f.Layout = r.Intn(64)
				f.Text = render(w, f)
			}
		}
	}
	// the rarely used switch that turns the import-definition check off
	if r.Chance(0.12) {
		w.NoVerCheck = true
	}
	// the module argument itself may be spelled rooted or with a dot segment
	switch r.Intn(8) {
	case 0:
		w.RootArg = "/" + w.Files[0].Path
	case 1:
		w.RootArg = "./" + w.Files[0].Path
	}
	// two files whose names differ only in letter case are two files
	if n >= 3 && r.Chance(0.1) {
		a, b := w.Files[n-1], w.Files[n-2]
		if a.Kind == "sysl" && b.Kind == "sysl" && !a.Remote && !b.Remote {
			a.Path, b.Path = "d1/Types.sysl", "d1/types.sysl"
			for _, f := range w.Files {
				for k, im := range f.Imports {
					t := w.Files[im.To]
					if (im.To == a.ID || im.To == b.ID || f == a || f == b) && !t.Remote && im.Ver == "" {
						f.Imports[k] = ImportSpec{To: im.To, Spell: "/" + t.Path, As: im.As}
					}
				}
				f.Text = render(w, f)
			}
		}
	}

	if r.Chance(0.5) {
		w.Buggify = append(w.Buggify, "short-reads")
	}
	if r.Chance(0.25) {
		// the compile runs at debug log level (-v): lazily formatted debug messages are evaluated
		w.Buggify = append(w.Buggify, "debug-log")
	}
	if faulty {
		planFaults(r, w)
		for _, f := range w.Files {
			if f.Kind == "dat" && faultFor(w, f.ID, "undetectable-format") == nil {
				w.Faults = append(w.Faults, Fault{File: f.ID, Kind: "undetectable-format", Certain: true})
			}
		}
	}
	return w
}

// plainWord: letters, digits and underscores only (what a statement's free text can hold
// without meaning something else to the lexer).
func plainWord(x string) bool {
	for _, c := range x {
		if !(c == '_' || c >= '0' && c <= '9' || c >= 'a' && c <= 'z' || c >= 'A' && c <= 'Z') {
			return false
		}
	}
	return x != ""
}

func foreignAs(i int) string { return fmt.Sprintf("Foreign%d", i) }

// spell chooses one legal spelling of "file j as seen from file i".
func spell(r *core.Rand, w *Workload, i, j int) ImportSpec {
	p, t := w.Files[i], w.Files[j]
	is := ImportSpec{To: j}
	if t.Kind != "sysl" {
		is.As = foreignAs(j)
		if (t.Kind == "swagger" || t.Kind == "openapi3") && (w.Seed+uint64(i+j))%2 == 0 {
			is.Mode = t.Kind // the optional hint after the name: import x.yaml as X ~swagger
		}
	}
	stripExt := func(s string) string {
		if t.Kind == "sysl" && r.Chance(0.5) {
			return strings.TrimSuffix(s, ".sysl")
		}
		return s
	}
	if t.Remote {
		tp := strings.TrimPrefix(t.Path, repoPrefix) // "/dir/f3.sysl"
		if p.Remote {
			switch r.Intn(3) {
			case 0: // relative inside the repo
				is.Spell = stripExt(relPath(path.Dir(strings.TrimPrefix(p.Path, repoPrefix)), tp))
				return is
			case 1: // rooted at the repo root
				is.Spell = stripExt(tp)
				return is
			}
		}
		is.Spell = stripExt(t.Path)
		if w.Family == "plain" && (w.Seed+uint64(7*j))%4 == 0 {
			// this file is imported without a version wherever its full name is spelled: the
			// retriever reads the default branch (HEAD) and the file's relative imports inherit
			// that, next to files of the same repository that are read at w.RemoteV
			return is
		}
		is.Ver = w.RemoteV
		is.Spell += "@" + is.Ver
		return is
	}
	// local target, local parent
	pd := path.Dir(p.Path)
	switch r.Intn(6) {
	case 0:
		is.Spell = "/" + t.Path
	case 1:
		is.Spell = "./" + relPath(pd, t.Path)
		if strings.HasPrefix(is.Spell, "./../") {
			is.Spell = is.Spell[2:]
		}
	case 2: // non-clean detour
		is.Spell = "zz/../" + relPath(pd, t.Path)
	case 3: // dot segment / doubled slash in the middle
		rp := relPath(pd, t.Path)
		if k := strings.Index(rp, "/"); k > 0 && !strings.HasPrefix(rp, "..") {
			if r.Chance(0.5) {
				rp = rp[:k] + "/./" + rp[k+1:]
			} else {
				rp = rp[:k] + "//" + rp[k+1:]
			}
		}
		is.Spell = rp
	default:
		is.Spell = relPath(pd, t.Path)
	}
	is.Spell = stripExt(is.Spell)
	return is
}

// relPath returns target (a clean path) relative to directory dir (clean, "." or "/x").
func relPath(dir, target string) string {
	if dir == "." || dir == "" || dir == "/" {
		return strings.TrimPrefix(target, "/")
	}
	ds := strings.Split(strings.Trim(dir, "/"), "/")
	ts := strings.Split(strings.Trim(target, "/"), "/")
	k := 0
	for k < len(ds) && k < len(ts)-1 && ds[k] == ts[k] {
		k++
	}
	var out []string
	for i := k; i < len(ds); i++ {
		out = append(out, "..")
	}
	out = append(out, ts[k:]...)
	return strings.Join(out, "/")
}

// makeDivergent gives one file two different import definitions.
func makeDivergent(r *core.Rand, w *Workload) bool {
	// collect files with >= 2 incoming import lines
	type ref struct{ file, idx int }
	in := map[int][]ref{}
	for _, f := range w.Files {
		for k, im := range f.Imports {
			if im.To != f.ID {
				in[im.To] = append(in[im.To], ref{f.ID, k})
			}
		}
	}
	var cands []int
	for t, rs := range in {
		if len(rs) >= 2 && t != 0 {
			cands = append(cands, t)
		}
	}
	sort.Ints(cands)
	if len(cands) == 0 {
		// make one: a second import line for some remote or foreign file
		var ts []int
		for _, f := range w.Files {
			if f.ID != 0 && (f.Remote || f.Kind != "sysl" || w.Family == "conflict") && len(in[f.ID]) >= 1 {
				ts = append(ts, f.ID)
			}
		}
		if len(ts) == 0 {
			return false
		}
		t := ts[r.Intn(len(ts))]
		var ps []int
		for _, f := range w.Files {
			if f.ID != t && f.Kind == "sysl" && (!f.Remote || w.Files[t].Remote) {
				ps = append(ps, f.ID)
			}
		}
		if len(ps) == 0 {
			return false
		}
		pf := ps[r.Intn(len(ps))]
		w.Files[pf].Imports = append(w.Files[pf].Imports, spell(r, w, pf, t))
		in[t] = append(in[t], ref{pf, len(w.Files[pf].Imports) - 1})
		cands = []int{t}
	}
	t := cands[r.Intn(len(cands))]
	if w.Family == "conflict" {
		for _, c := range cands {
			if w.Files[c].Remote && r.Chance(0.7) {
				t = c
				break
			}
		}
	}
	rs := in[t]
	a := rs[r.Intn(len(rs))]
	im := &w.Files[a.file].Imports[a.idx]
	tf := w.Files[t]
	if w.Family == "conflict" {
		if tf.Remote && r.Chance(0.75) {
			// a different, non-alias version
			im.Spell = strings.Split(im.Spell, "@")[0]
			if !strings.HasPrefix(im.Spell, "//") {
				im.Spell = tf.Path
			}
			im.Ver = "v9"
			im.Spell += "@v9"
			return true
		}
		im.As = fmt.Sprintf("Other%d", t)
		return true
	}
	// divergent: same file, equal under the version check, different definition
	if tf.Remote {
		alias := map[string]string{"master": "main", "main": "develop", "develop": "master"}
		if v, ok := alias[w.RemoteV]; ok {
			if r.Chance(0.5) {
				im.Spell = tf.Path + "@" + v
				im.Ver = v
			} else {
				// no version at all: the version check treats it like master/main/develop
				im.Spell = tf.Path
				im.Ver = ""
			}
			return true
		}
		return false
	}
	if tf.Kind != "sysl" {
		// same application name, different package
		im.As = "pkg.sub." + foreignAs(t)
		return true
	}
	return false
}

// render produces the text of a file.
func render(w *Workload, f *FileSpec) string {
	switch f.Kind {
	case "swagger":
		return fmt.Sprintf(`swagger: "2.0"
info:
  title: Foreign %d
  version: "1"
paths:
  /p%d:
    get:
      responses:
        200:
          description: ok
`, f.ID, f.ID)
	case "openapi3":
		return fmt.Sprintf(`openapi: "3.0.0"
info:
  title: Foreign %d
  version: "1"
paths:
  /p%d:
    get:
      responses:
        "200":
          description: ok
`, f.ID, f.ID)
	case "pbjson":
		return fmt.Sprintf(`{"apps": {"Foreign%d": {"name": {"part": ["Foreign%d"]}, "endpoints": {"E%d": {"name": "E%d"}}}}}`,
			f.ID, f.ID, f.ID, f.ID)
	case "dat":
		return fmt.Sprintf("record %d of some format nobody knows\n", f.ID)
	case "textpb":
		return fmt.Sprintf("apps: {\n key: \"Foreign%d\"\n value: {\n  name: {\n   part: \"Foreign%d\"\n  }\n }\n}\n", f.ID, f.ID)
	}
	var b strings.Builder
	sep := []string{" ", "\t", "  ", " \t"}[f.Layout&3]
	for k, im := range f.Imports {
		if f.LongLine == k+1 {
			// a very long line ahead of an import statement (a generated banner, a minified comment)
			b.WriteString("# " + strings.Repeat("long comment ", 5600) + "\n")
		}
		if f.Layout&4 != 0 && b.Len() == 0 {
			b.WriteString("  ") // the grammar accepts white space at the very start of the file
		}
		if f.Layout&8 != 0 && k > 0 {
			b.WriteString([]string{"   \n", "\t\n", "  # a note\n", "\n#\n \n"}[(f.ID+k)%4])
		}
		b.WriteString("import" + sep + im.Spell)
		if im.As != "" {
			b.WriteString(" as " + im.As)
		}
		if im.Mode != "" {
			b.WriteString(" ~" + im.Mode)
		}
		b.WriteString("\n")
	}
	if len(f.Imports) > 0 {
		b.WriteString("\n")
	}
	if f.Layout&32 != 0 {
		// the keyword needs white space behind it: importer is a name
		fmt.Fprintf(&b, "importer%d:\n    E:\n        ...\n\n", f.ID)
	}
	if f.Layout&16 != 0 {
		// after the first application import is an ordinary word: a statement that reads exactly
		// like an import line of this model (the root's first, or this file's own) is still a
		// statement
		stmt := "import the records"
		for _, g := range []*FileSpec{w.Files[0], f} {
			// ... or like the beginning of one: "import d1" next to the import line "import d1/f3"
			for _, im := range g.Imports {
				first, _, _ := strings.Cut(im.Spell, "/")
				if im.As == "" && plainWord(first) {
					stmt = "import " + first
					break
				}
			}
			if stmt != "import the records" {
				break
			}
		}
		fmt.Fprintf(&b, "F%d:\n    !type T%d:\n        x <: int\n\nShared:\n    E%d:\n        %s\n        ...\n\nimport Gateway%d:\n    E:\n        ...\n",
			f.ID, f.ID, f.ID, stmt, f.ID)
		return b.String()
	}
	fmt.Fprintf(&b, "F%d:\n    !type T%d:\n        x <: int\n\nShared:\n    E%d:\n        ...\n", f.ID, f.ID, f.ID)
	return b.String()
}
