package core

import (
	"encoding/json"
	"fmt"
	"os"
	"path/filepath"
	"runtime"
	"sort"
	"strconv"
	"strings"
	"time"
)

// Evidence mirrors /root/.vp/EVIDENCE.schema.json.
type Evidence struct {
	PropertyID  string                 `json:"property_id"`
	Tier        string                 `json:"tier"`
	Seed        int64                  `json:"seed"`
	Level       string                 `json:"level"`
	Coverage    map[string]interface{} `json:"coverage"`
	Assumptions []string               `json:"assumptions,omitempty"`
	WallS       float64                `json:"wall_s"`
	Violations  int                    `json:"violations"`
}

// Counters is a deterministic (sorted on output) bag of named counters.
type Counters map[string]int64

func (c Counters) Add(k string, n int64) { c[k] += n }
func (c Counters) Inc(k string)          { c[k]++ }
func (c Counters) Merge(o Counters) {
	for k, v := range o {
		c[k] += v
	}
}

// WriteJSON writes v atomically (tmp + rename) with sorted map keys (encoding/json sorts).
func WriteJSON(path string, v interface{}) error {
	b, err := json.MarshalIndent(v, "", " ")
	if err != nil {
		return err
	}
	if err := os.MkdirAll(filepath.Dir(path), 0o755); err != nil {
		return err
	}
	tmp := path + ".tmp" + strconv.Itoa(os.Getpid())
	if err := os.WriteFile(tmp, append(b, '\n'), 0o644); err != nil {
		return err
	}
	return os.Rename(tmp, path)
}

func ReadJSON(path string, v interface{}) error {
	b, err := os.ReadFile(path)
	if err != nil {
		return err
	}
	return json.Unmarshal(b, v)
}

// Env helpers -------------------------------------------------------------------

func EnvInt(name string, def int64) int64 {
	v := os.Getenv(name)
	if v == "" {
		return def
	}
	n, err := strconv.ParseInt(v, 10, 64)
	if err != nil {
		Fatal2("bad integer in %s=%q", name, v)
	}
	return n
}

func EnvStr(name, def string) string {
	if v := os.Getenv(name); v != "" {
		return v
	}
	return def
}

// RealStderr is the process's stderr before QuietStderr redirected os.Stderr.
var RealStderr = os.Stderr

// QuietStderr sends os.Stderr writers (ANTLR's console error listener) to /dev/null;
// panics, the race detector and Fatal2 still reach the real stderr.
func QuietStderr() {
	if f, err := os.OpenFile(os.DevNull, os.O_WRONLY, 0); err == nil {
		os.Stderr = f
	}
}

// Fatal2 reports harness trouble: exit code 2, never a property verdict.
func Fatal2(format string, a ...interface{}) {
	fmt.Fprintf(RealStderr, "HARNESS-ERROR: "+format+"\n", a...)
	os.Exit(2)
}

// StartWatchdog exits 2 (after dumping all stacks) when Heartbeat has not moved for
// limit.  If classify says the stall is inside the system under test it is left to the
// caller to report (onStall returns true when it handled the stall).
func StartWatchdog(limit time.Duration, onStall func(stacks string) bool) {
	go func() {
		last := Heartbeat.Load()
		lastMove := time.Now()
		var drainSeen time.Time
		for {
			time.Sleep(time.Second)
			cur := Heartbeat.Load()
			if cur != last {
				last, lastMove = cur, time.Now()
				continue
			}
			if DrainingSince.Load() == 0 {
				drainSeen = time.Time{}
			} else if drainSeen.IsZero() {
				drainSeen = time.Now()
			}
			if time.Since(lastMove) > limit || (!drainSeen.IsZero() && time.Since(drainSeen) > 30*time.Second) {
				buf := make([]byte, 8<<20)
				n := runtime.Stack(buf, true)
				st := string(buf[:n])
				if onStall != nil && onStall(st) {
					return
				}
				fmt.Fprintf(RealStderr, "HARNESS-ERROR: watchdog: no scheduler progress for %v\n%s\n", limit, st)
				os.Exit(2)
			}
		}
	}()
}

// StuckInSUT inspects a full goroutine dump and reports whether some goroutine is
// running or runnable (not parked, not blocked) with a frame of the system under test on
// its stack: a CPU loop inside sysl rather than trouble in the harness.  It returns the
// top frames of that goroutine.
func StuckInSUT(stacks string) (bool, string) {
	for _, g := range strings.Split(stacks, "\n\n") {
		head := g
		if i := strings.Index(g, "\n"); i >= 0 {
			head = g[:i]
		}
		if !(strings.Contains(head, "[running") || strings.Contains(head, "[runnable")) {
			continue
		}
		if strings.Contains(g, "core.StartWatchdog") {
			continue
		}
		if strings.Contains(g, "github.com/anz-bank/sysl/pkg/") || strings.Contains(g, "github.com/anz-bank/sysl/cmd/") {
			lines := strings.Split(g, "\n")
			if len(lines) > 14 {
				lines = lines[:14]
			}
			return true, strings.Join(lines, " | ")
		}
	}
	return false, ""
}

// Set of strings with sorted listing.
type StrSet map[string]struct{}

func (s StrSet) Add(x string)      { s[x] = struct{}{} }
func (s StrSet) Has(x string) bool { _, ok := s[x]; return ok }
func (s StrSet) Sorted() []string {
	out := make([]string, 0, len(s))
	for k := range s {
		out = append(out, k)
	}
	sort.Strings(out)
	return out
}

// Trunc shortens a string for logs.
func Trunc(s string, n int) string {
	if len(s) <= n {
		return s
	}
	return s[:n] + fmt.Sprintf("…(+%d bytes)", len(s)-n)
}

// OneLine squeezes whitespace so a text fits on one log line.
func OneLine(s string) string { return strings.Join(strings.Fields(s), " ") }
