package core

import (
	"encoding/json"
	"fmt"
	"os"
	"os/exec"
	"path/filepath"
	"sort"
	"strconv"
	"strings"
	"sync"
	"time"
)

// ViolationRec is a reproduced, minimised violation as reported by a worker.
type ViolationRec struct {
	Class  string `json:"class"`
	Sig    string `json:"sig,omitempty"`
	Detail string `json:"detail"`
	Replay string `json:"replay"`
	Seed   uint64 `json:"seed"`
}

// Partial is what one worker process hands back to the master.
type Partial struct {
	Worker      int               `json:"worker"`
	GoMaxProcs  int               `json:"gomaxprocs"`
	Evaluations int64             `json:"evaluations"`
	Cases       int64             `json:"cases"`
	Distinct    []uint64          `json:"distinct"`      // hashes of non-trivial runs
	Interleave  []uint64          `json:"interleavings"` // hashes of pick traces
	Counters    Counters          `json:"counters"`
	Steps       int64             `json:"steps"`
	Twins       int64             `json:"twins"` // runs re-executed from their trace and found identical
	Violations  []ViolationRec    `json:"violations"`
	Samples     []json.RawMessage `json:"samples"`
	HarnessErr  string            `json:"harness_err,omitempty"`
	Digests     map[string]uint64 `json:"digests,omitempty"` // case id -> hash of everything observed (determinism self-test)
	WallS       float64           `json:"wall_s"`
}

// Cfg is the per-invocation configuration, from the environment.
type Cfg struct {
	Property string
	Tier     string
	Seed     uint64
	BudgetS  float64
	Workers  int
	Worker   int // -1 = master
	OutDir   string
	Replay   string
	Mode     string
	Bin      string // binary to start workers from (default: this binary)
}

func LoadCfg() Cfg {
	c := Cfg{
		Property: EnvStr("VERIF_PROP", ""),
		Tier:     EnvStr("VERIF_TIER", "quick"),
		Seed:     uint64(EnvInt("VERIF_SEED", 20260926)),
		BudgetS:  float64(EnvInt("VERIF_BUDGET_S", 40)),
		Workers:  int(EnvInt("VERIF_WORKERS", 14)),
		Worker:   int(EnvInt("VERIF_WORKER", -1)),
		OutDir:   EnvStr("VERIF_OUT", ""),
		Replay:   EnvStr("VERIF_REPLAY", ""),
		Mode:     EnvStr("VERIF_MODE", ""),
	}
	if c.Tier != "quick" && c.Tier != "thorough" {
		Fatal2("VERIF_TIER must be quick or thorough")
	}
	if c.OutDir == "" {
		Fatal2("VERIF_OUT not set (run through ./check)")
	}
	return c
}

func (c Cfg) PartPath(i int) string {
	return filepath.Join(c.OutDir, fmt.Sprintf("part-%s-%d.json", c.Mode, i))
}

// SpawnWorkers runs this binary n times as workers and collects their partials.
// extraEnv is added to every worker.  A worker that dies without a partial is harness
// trouble (exit 2), never a verdict.
func SpawnWorkers(c Cfg, n int, extraEnv func(i int) []string, gomaxprocs func(i int) int) []*Partial {
	var wg sync.WaitGroup
	parts := make([]*Partial, n)
	errs := make([]string, n)
	for i := 0; i < n; i++ {
		wg.Add(1)
		go func(i int) {
			defer wg.Done()
			bin := os.Args[0]
			if c.Bin != "" {
				bin = c.Bin
			}
			cmd := exec.Command(bin, "-test.run", "^TestEngine$", "-test.timeout", "0", "-test.count", "1")
			gmp := gomaxprocs(i)
			cmd.Env = os.Environ()
			if extraEnv != nil {
				cmd.Env = append(cmd.Env, extraEnv(i)...)
			}
			cmd.Env = append(cmd.Env, "VERIF_WORKER="+strconv.Itoa(i), "VERIF_WORKERS="+strconv.Itoa(n),
				"GOMAXPROCS="+strconv.Itoa(gmp), "VERIF_MODE="+c.Mode)
			logf := filepath.Join(c.OutDir, fmt.Sprintf("worker-%s-%d.log", c.Mode, i))
			lf, err := os.Create(logf)
			if err != nil {
				errs[i] = err.Error()
				return
			}
			cmd.Stdout, cmd.Stderr = lf, lf
			_ = os.Remove(c.PartPath(i))
			runErr := cmd.Run()
			lf.Close()
			var p Partial
			if err := ReadJSON(c.PartPath(i), &p); err != nil {
				all, _ := os.ReadFile(logf)
				if what, ok := CrashInSUT(string(all)); ok {
					// the process was brought down by the code under test (an unrecovered
					// panic in one of its goroutines, concurrent map writes, ...): that is a
					// finding about the tree, not harness trouble
					rp := filepath.Join(ReplayDir(), fmt.Sprintf("%s-process-crash-%s-%d.log", c.Property, c.Mode, i))
					_ = os.WriteFile(rp, all, 0o644)
					parts[i] = &Partial{Worker: i, GoMaxProcs: gmp, Evaluations: 1, Counters: Counters{"worker_processes_crashed_by_sut": 1},
						Violations: []ViolationRec{{Class: "process-crash", Detail: what, Replay: rp}}}
					return
				}
				head, tail := all, []byte(nil)
				if len(all) > 8000 {
					head, tail = all[:4000], all[len(all)-4000:]
				}
				errs[i] = fmt.Sprintf("worker %d (%s) left no result (%v / %v); log head:\n%s\n...\nlog tail:\n%s", i, c.Mode, runErr, err, head, tail)
				return
			}
			p.GoMaxProcs = gmp
			parts[i] = &p
		}(i)
	}
	wg.Wait()
	// A worker that left no result is harness trouble (exit 2) - unless some other worker
	// of the run reports a violation: a tree that makes one process hang or die under the
	// watchdog and another one report the same hang properly has been decided.  Finish
	// makes that call over all groups of workers; here the loss is only recorded.
	for i, e := range errs {
		if e != "" {
			parts[i] = &Partial{Worker: i, Counters: Counters{"worker_processes_lost_without_result": 1}, HarnessErr: e}
		}
	}
	return parts
}

// CrashInSUT decides whether a dead worker's log shows a Go runtime crash whose first
// goroutine trace runs through the system under test before any harness frame.
func CrashInSUT(log string) (string, bool) {
	log = "\n" + log
	idx := -1
	for _, marker := range []string{"fatal error: ", "\npanic: "} {
		if k := strings.Index(log, marker); k >= 0 && (idx < 0 || k < idx) {
			idx = k
		}
	}
	if idx < 0 {
		return "", false
	}
	rest := log[idx:]
	// first goroutine block after the marker
	g := strings.Index(rest, "\ngoroutine ")
	if g < 0 {
		return "", false
	}
	block := rest[g+1:]
	if e := strings.Index(block, "\n\n"); e >= 0 {
		block = block[:e]
	}
	sut := strings.Index(block, "github.com/anz-bank/sysl/pkg/")
	if sut < 0 {
		sut = strings.Index(block, "github.com/anz-bank/sysl/cmd/")
	}
	if sut < 0 {
		return "", false
	}
	if h := strings.Index(block, "verif/sim/"); h >= 0 && h < sut {
		return "", false
	}
	lines := strings.Split(block, "\n")
	if len(lines) > 12 {
		lines = lines[:12]
	}
	first := strings.TrimLeft(rest, "\n")
	if e := strings.Index(first, "\n"); e >= 0 {
		first = first[:e]
	}
	return OneLine(strings.TrimSpace(first) + " :: " + strings.Join(lines, " | ")), true
}

// DumpDigests writes the union of the workers' digests to $VERIF_DIGESTS (if set).
func DumpDigests(parts []*Partial) {
	path := os.Getenv("VERIF_DIGESTS")
	if path == "" {
		return
	}
	all := map[string]uint64{}
	for _, p := range parts {
		for k, v := range p.Digests {
			all[k] = v
		}
	}
	if err := WriteJSON(path, all); err != nil {
		Fatal2("write digests: %v", err)
	}
}

// Merged is the union of partials.
type Merged struct {
	Evaluations int64
	Cases       int64
	Distinct    int
	Interleave  int
	Counters    Counters
	Steps       int64
	Twins       int64
	Violations  []ViolationRec
	Samples     []json.RawMessage
	HarnessErrs []string
}

func Merge(parts []*Partial) Merged {
	m := Merged{Counters: Counters{}}
	d, il := map[uint64]bool{}, map[uint64]bool{}
	for _, p := range parts {
		m.Evaluations += p.Evaluations
		m.Cases += p.Cases
		m.Steps += p.Steps
		m.Twins += p.Twins
		for _, h := range p.Distinct {
			d[h] = true
		}
		for _, h := range p.Interleave {
			il[h] = true
		}
		m.Counters.Merge(p.Counters)
		m.Violations = append(m.Violations, p.Violations...)
		if p.HarnessErr != "" {
			m.HarnessErrs = append(m.HarnessErrs, fmt.Sprintf("worker %d: %s", p.Worker, p.HarnessErr))
		}
		if len(m.Samples) < 3 && len(p.Samples) > 0 {
			m.Samples = append(m.Samples, p.Samples[0])
		}
	}
	m.Distinct, m.Interleave = len(d), len(il)
	sort.Slice(m.Violations, func(i, j int) bool {
		a, b := m.Violations[i], m.Violations[j]
		if a.Class != b.Class {
			return a.Class < b.Class
		}
		return a.Replay < b.Replay
	})
	return m
}

// Finish prints verdict lines, writes the evidence file and returns the exit code.
func Finish(c Cfg, level string, m Merged, rule string, extra map[string]interface{}, assumptions []string, start time.Time) int {
	if len(m.HarnessErrs) > 0 {
		unknown := 0
		probe := NewReporter(c.Property)
		for _, v := range m.Violations {
			if !probe.IsKnown(v.Sig) {
				unknown++
			}
		}
		if unknown == 0 {
			Fatal2("%s", strings.Join(m.HarnessErrs, "\n"))
		}
		// (the check script treats the token HARNESS-ERROR on stderr as exit 2: keep it out of this note)
		fmt.Fprintf(os.Stderr, "note: %d worker(s) left no result while others report violations; first: %s\n", len(m.HarnessErrs),
			strings.ReplaceAll(Trunc(m.HarnessErrs[0], 400), "HARNESS-ERROR", "harness-error"))
	}
	rep := NewReporter(c.Property)
	// report each (class, sig) once, the shortest replay first
	seen := map[string]bool{}
	for _, v := range m.Violations {
		k := v.Class + "|" + v.Sig
		if rep.IsKnown(v.Sig) {
			rep.Report(v.Sig, v.Replay, v.Detail)
			continue
		}
		if seen[k] {
			continue
		}
		seen[k] = true
		rep.Report(v.Sig, v.Replay, "["+v.Class+"] "+OneLine(Trunc(v.Detail, 600)))
	}
	wall := time.Since(start).Seconds()
	cov := map[string]interface{}{
		"evaluations":            m.Evaluations,
		"distinct_nontrivial":    m.Distinct,
		"rule":                   rule,
		"samples":                m.Samples,
		"cases":                  m.Cases,
		"distinct_interleavings": m.Interleave,
		"scheduler_steps_total":  m.Steps,
		"twin_runs_identical":    m.Twins,
		"counters":               m.Counters,
		"known_findings_seen":    rep.Known,
	}
	if wall > 0 {
		cov["runs_per_hour"] = int64(float64(m.Evaluations) / wall * 3600)
		cov["seeds_per_hour"] = int64(float64(m.Cases) / wall * 3600)
	}
	for k, v := range extra {
		cov[k] = v
	}
	if len(m.Samples) == 0 {
		cov["samples"] = []string{"(no run completed)"}
	}
	ev := Evidence{PropertyID: c.Property, Tier: c.Tier, Seed: int64(c.Seed), Level: level,
		Coverage: cov, Assumptions: assumptions, WallS: wall, Violations: rep.Violations}
	if err := WriteJSON(filepath.Join(VerifDir(), "evidence", c.Property+".json"), ev); err != nil {
		Fatal2("writing evidence: %v", err)
	}
	fmt.Printf("SUMMARY property=%s tier=%s seed=%d runs=%d cases=%d distinct_nontrivial=%d interleavings=%d violations=%d known=%d wall=%.1fs\n",
		c.Property, c.Tier, c.Seed, m.Evaluations, m.Cases, m.Distinct, m.Interleave, rep.Violations, rep.Known, wall)
	if m.Evaluations == 0 {
		Fatal2("no run was executed")
	}
	if rep.Violations > 0 {
		return 1
	}
	return 0
}

// ReplayDir is where replay files are written.
func ReplayDir() string {
	d := filepath.Join(VerifDir(), "replays")
	_ = os.MkdirAll(d, 0o755)
	return d
}

// SafeName makes a string usable in a file name.
func SafeName(s string) string {
	return strings.Map(func(r rune) rune {
		if r >= 'a' && r <= 'z' || r >= 'A' && r <= 'Z' || r >= '0' && r <= '9' || r == '-' || r == '_' {
			return r
		}
		return '_'
	}, s)
}
