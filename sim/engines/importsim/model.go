package importsim

import (
	"fmt"
	"strings"

	"verif/sim/core"
)

// Expect is what the reference closure model says about a workload.  It works on the
// abstract graph only (IDs, ordered import lists with their declared version / "as"
// name, depth limit, fault plan) and never looks at file text.
type Expect struct {
	Dist      []int    // import distance from the root (-1 = not part of the closure)
	Included  []int    // files expected in the model, in expected processing order
	Conflict  bool     // an import-definition conflict must fail every schedule
	Bad       []int    // certainly-bad files that are certainly reached
	Uncertain bool     // some uncertain fault (truncation, flip, ...) is in the plan
	UncFiles  []int    // files carrying an uncertain fault
	Divergent []int    // files imported under >= 2 distinct definitions
	MultiPar  []int    // files with >= 2 importing lines
	OrderPath []string // Included as canonical paths of sysl files only
	SrcCtx    []string // "<app> <file as first imported>" for every included sysl file
	ClaimVer  []string // version suffix under which each file is first imported ("" = none)
}

func normVer(v string) string {
	switch v {
	case "master", "main", "develop", "HEAD":
		// the default branch under its usual names, and under the name the retriever reports
		// for a file imported without a version: importing a file without a version and
		// through a relative import of such a file is one definition, not a conflict
		return ""
	}
	return v
}

func appOf(as string) string {
	if !strings.Contains(as, "::") {
		if k := strings.LastIndex(as, "."); k >= 0 {
			as = as[k+1:]
		}
	}
	return strings.ReplaceAll(as, " :: ", "::")
}

// Model computes the expectation: a breadth-first walk that claims the files of one
// level in text order (first import statement wins), follows the imports of every file
// that can be read and whose import section parses, stops at the depth limit, and then
// flattens depth-first in text order.
func Model(w *Workload) *Expect {
	n := len(w.Files)
	e := &Expect{Dist: make([]int, n), ClaimVer: make([]string, n)}
	badKind := map[int]string{}
	unc := map[int]bool{}
	for _, f := range w.Faults {
		if f.Certain {
			if _, ok := badKind[f.File]; !ok || (f.Kind != "garbage-body" && f.Kind != "garbage-bracket" && f.Kind != "bad-escape") {
				badKind[f.File] = f.Kind
			}
		} else {
			e.Uncertain = true
			if !unc[f.File] {
				unc[f.File] = true
				e.UncFiles = append(e.UncFiles, f.File)
			}
		}
	}
	for i := range e.Dist {
		e.Dist[i] = -1
	}
	followable := func(i int) bool {
		if unc[i] {
			return false // what an uncertain fault leaves of the import section is unknown
		}
		k, bad := badKind[i]
		return !bad || k == "garbage-body" || k == "garbage-bracket" || k == "bad-escape"
	}
	type pend struct {
		to       int
		ver, app string
	}
	claimedApp := make([]string, n)
	defsSeen := make([]map[string]bool, n)
	lines := make([]int, n)
	level := []pend{{0, "", ""}}
	for depth := 0; len(level) > 0 && (w.MaxDepth <= 0 || depth < w.MaxDepth); depth++ {
		var fresh []int
		for _, p := range level {
			if defsSeen[p.to] == nil {
				defsSeen[p.to] = map[string]bool{}
			}
			defsSeen[p.to][p.ver+"|"+p.app] = true
			lines[p.to]++
			if e.Dist[p.to] >= 0 {
				if !w.NoVerCheck && (normVer(e.ClaimVer[p.to]) != normVer(p.ver) || claimedApp[p.to] != appOf(p.app)) {
					e.Conflict = true
				}
				continue
			}
			e.Dist[p.to] = depth
			e.ClaimVer[p.to] = p.ver
			claimedApp[p.to] = appOf(p.app)
			fresh = append(fresh, p.to)
		}
		level = nil
		for _, i := range fresh {
			if !followable(i) {
				continue
			}
			f := w.Files[i]
			for _, im := range f.Imports {
				ver := im.Ver
				if ver == "" && f.Remote && !strings.HasPrefix(im.Spell, "//") {
					// inherited from the branch the importing file was fetched at
					ver = e.ClaimVer[i]
					if ver == "" {
						ver = "HEAD"
					}
				}
				level = append(level, pend{im.To, ver, im.As})
			}
		}
	}
	in := func(i int) bool { return e.Dist[i] >= 0 }
	for i := 0; i < n; i++ {
		if _, bad := badKind[i]; bad && in(i) {
			e.Bad = append(e.Bad, i)
		}
		if len(defsSeen[i]) >= 2 {
			e.Divergent = append(e.Divergent, i)
		}
		if lines[i] >= 2 {
			e.MultiPar = append(e.MultiPar, i)
		}
	}
	// depth-first pre-order over the included set, import lists in text order
	seen := make([]bool, n)
	var walk func(i int)
	walk = func(i int) {
		if seen[i] || !in(i) {
			return
		}
		seen[i] = true
		e.Included = append(e.Included, i)
		for _, im := range w.Files[i].Imports {
			walk(im.To)
		}
	}
	walk(0)
	for _, i := range e.Included {
		f := w.Files[i]
		if f.Kind != "sysl" {
			continue
		}
		e.OrderPath = append(e.OrderPath, f.Path)
		file := f.Path
		if f.Remote && e.ClaimVer[i] != "" {
			file += "@" + e.ClaimVer[i]
		}
		e.SrcCtx = append(e.SrcCtx, fmt.Sprintf("F%d %s", i, file))
	}
	return e
}

// ShapeHash: what "the same graph" means for evidence counting.
func (w *Workload) ShapeHash() uint64 {
	var parts []string
	for _, f := range w.Files {
		s := f.Kind + ":"
		for _, im := range f.Imports {
			s += "," + string(rune('a'+im.To))
		}
		parts = append(parts, s)
	}
	parts = append(parts, "d", string(rune('0'+w.MaxDepth)))
	for _, f := range w.Faults {
		parts = append(parts, f.Kind, string(rune('a'+f.File)))
	}
	return core.HashStrings(parts...)
}
