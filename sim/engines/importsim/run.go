package importsim

import (
	"bytes"
	"context"
	"errors"
	"fmt"
	"io"
	"os"
	"path"
	"regexp"
	"runtime/debug"
	"strings"
	"sync"
	"sync/atomic"
	"syscall"
	"testing"

	"github.com/anz-bank/golden-retriever/reader/filesystem"
	"github.com/anz-bank/golden-retriever/reader/remotefs"
	"github.com/anz-bank/golden-retriever/retriever"
	"github.com/sirupsen/logrus"

	"github.com/anz-bank/sysl/pkg/parse"
	"github.com/anz-bank/sysl/pkg/pbutil"
	"github.com/anz-bank/sysl/pkg/sysl"
	"github.com/anz-bank/sysl/pkg/syslutil"
	"github.com/anz-bank/sysl/pkg/verifhook"

	"verif/sim/core"
	"verif/sim/simfs"
)

// Outcome is everything observed in one run.
type Outcome struct {
	OK        bool     `json:"ok"`
	Err       string   `json:"err,omitempty"`
	IsExit    bool     `json:"is_exit,omitempty"`
	ExitCode  int      `json:"exit_code,omitempty"`
	Panic     string   `json:"panic,omitempty"`
	Fatal     bool     `json:"fatal,omitempty"` // logrus.Fatal was called
	ModelErr  bool     `json:"model_with_error,omitempty"`
	JSON      string   `json:"-"`
	Text      string   `json:"-"`
	ModelHash uint64   `json:"model_hash,omitempty"`
	Order     []string `json:"order,omitempty"`   // Shared's source contexts, canonical paths
	Apps      []string `json:"apps,omitempty"`    // application names
	SrcCtx    []string `json:"src_ctx,omitempty"` // "<app> <file> <version>" for the F apps

	Reads      map[string]int `json:"reads,omitempty"` // canonical path -> number of opens / retrieves
	ClaimDepth map[string]int `json:"claim_depth,omitempty"`

	Picks      []string       `json:"picks"`
	Log        []string       `json:"-"`
	Steps      int            `json:"steps"`
	Choices    int            `json:"choices"`
	MaxParked  int            `json:"max_parked"`
	Stragglers []string       `json:"stragglers,omitempty"`
	Sched      core.RunResult `json:"sched"`
	Fired      core.Counters  `json:"fired,omitempty"`
	Probes     core.Counters  `json:"probes,omitempty"`
	Races      int            `json:"races,omitempty"`
}

var current atomic.Pointer[core.Sched]

type fatalSentinel struct{}

var installOnce sync.Once

// install wires the process-global seams once.
func install() {
	installOnce.Do(func() {
		verifhook.Hook = func(point, key string) {
			if s := current.Load(); s != nil {
				s.Park(point, key)
			}
		}
		verifhook.NoteHook = func(point, key string) {
			if s := current.Load(); s != nil {
				s.Note(point, key)
			}
		}
		logrus.StandardLogger().ExitFunc = func(int) { panic(fatalSentinel{}) }
		logrus.SetOutput(new(bytes.Buffer))
	})
}

// simRetriever is the network seam.
type simRetriever struct {
	w     *Workload
	s     *core.Sched
	mu    sync.Mutex
	reads map[string]int
	fired core.Counters
}

func (r *simRetriever) Retrieve(ctx context.Context, res *retriever.Resource) ([]byte, error) {
	p := "//" + res.Repo + "/" + res.Filepath
	r.s.Park("retrieve", p+"@"+res.Ref.Name())
	// like the git retriever, a fetch that is still in flight when its context is
	// cancelled gives up with the context's error
	if err := ctx.Err(); err != nil {
		r.mu.Lock()
		r.fired.Inc("retrieve-cancelled")
		r.mu.Unlock()
		return nil, err
	}
	r.mu.Lock()
	r.reads[p]++
	r.mu.Unlock()
	for _, f := range r.w.Files {
		if f.Remote && f.Path == p {
			if ft := faultFor(r.w, f.ID, "retrieve-error"); ft != nil {
				r.mu.Lock()
				r.fired.Inc("retrieve-error")
				r.mu.Unlock()
				// the identity of the error must not matter: plain, or wrapping one of the
				// sentinel errors a real fetch can end with
				switch ft.Param % 4 {
				case 1:
					return nil, fmt.Errorf("fetch of %s aborted: %w", p, context.Canceled)
				case 2:
					return nil, fmt.Errorf("fetch of %s timed out: %w", p, context.DeadlineExceeded)
				case 3:
					return nil, fmt.Errorf("fetch of %s: %w", p, os.ErrNotExist)
				}
				return nil, fmt.Errorf("simulated network failure fetching %s", p)
			}
			return []byte(f.Text), nil
		}
	}
	return nil, fmt.Errorf("remote file not found: %s", p)
}

var reAt = regexp.MustCompile(`@.*$`)
var reFApp = regexp.MustCompile(`^F[0-9]+$`)

// Execute runs one (workload, picker) pair on the real parser.
func Execute(t *testing.T, w *Workload, picker core.Picker, maxSteps int) *Outcome {
	install()
	o := &Outcome{Reads: map[string]int{}, ClaimDepth: map[string]int{},
		Fired: core.Counters{}, Probes: core.Counters{}}
	s := core.NewSched("claim", "convert", "open", "retrieve")
	fs := simfs.New()
	byAbs := map[string]*FileSpec{}
	for _, f := range w.Files {
		if f.Remote {
			continue
		}
		byAbs[fs.Abs(f.Path)] = f
		if faultFor(w, f.ID, "enoent") != nil {
			continue
		}
		fs.PutFile(f.Path, []byte(f.Text))
	}
	var mu sync.Mutex
	fs.Hook = func(op string, paths []string) error {
		if op != "Open" {
			return nil
		}
		abs := fs.Abs(paths[0])
		s.Park("open", abs)
		mu.Lock()
		defer mu.Unlock()
		o.Reads[strings.TrimPrefix(abs, "/")]++
		if f := byAbs[abs]; f != nil {
			if faultFor(w, f.ID, "enoent") != nil {
				o.Fired.Inc("enoent")
			}
			if faultFor(w, f.ID, "eacces") != nil {
				o.Fired.Inc("eacces")
				return syscall.EACCES
			}
			if ft := faultFor(w, f.ID, "eio-open"); ft != nil {
				o.Fired.Inc("eio-open")
				switch ft.Param % 4 {
				case 1:
					return fmt.Errorf("read aborted: %w", context.Canceled)
				case 2:
					return io.ErrUnexpectedEOF
				}
				return syscall.EIO
			}
		}
		return nil
	}
	fs.ReadFault = func(abs string, off int64) error {
		if f := byAbs[abs]; f != nil {
			if ft := faultFor(w, f.ID, "eio-read"); ft != nil && off >= int64(ft.Param) {
				mu.Lock()
				o.Fired.Inc("eio-read")
				mu.Unlock()
				return syscall.EIO
			}
		}
		return nil
	}
	fs.CloseFault = func(abs string) error {
		if f := byAbs[abs]; f != nil && faultFor(w, f.ID, "close-error") != nil {
			mu.Lock()
			o.Fired.Inc("close-error")
			mu.Unlock()
			return syscall.EIO
		}
		return nil
	}
	if hasBuggify(w, "debug-log") {
		old := logrus.GetLevel()
		logrus.SetLevel(logrus.DebugLevel)
		defer logrus.SetLevel(old)
		o.Probes.Inc("buggify_debug_log_level")
	}
	if hasBuggify(w, "short-reads") {
		chunk := int(w.Seed%13) + 1
		fs.ReadChunk = func(string) int { return chunk }
		o.Probes.Inc("buggify_short_reads")
	}
	for _, ft := range w.Faults {
		switch ft.Kind {
		case "garbage-import", "garbage-body", "garbage-bracket", "bad-escape", "bad-foreign", "truncate", "flip", "empty", "undetectable-format":
			o.Fired.Inc(ft.Kind) // content faults are delivered with the content
		}
	}
	ret := &simRetriever{w: w, s: s, reads: map[string]int{}, fired: core.Counters{}}
	rd := remotefs.NewWithRetriever(filesystem.New(fs), ret)

	var mod *sysl.Module
	var err error
	root := func() {
		core.SetTask("")
		defer func() {
			if r := recover(); r != nil {
				if _, ok := r.(fatalSentinel); ok {
					o.Fatal = true
					err = errors.New("logrus.Fatal called")
					return
				}
				o.Panic = fmt.Sprintf("%v\n%s", r, debug.Stack())
			}
		}()
		p := parse.NewParser()
		p.Set(parse.Settings{MaxImportDepth: w.MaxDepth, NoDifferentVersionCheck: w.NoVerCheck})
		arg := w.Files[0].Path
		if w.RootArg != "" {
			arg = w.RootArg
		}
		mod, err = p.Parse(arg, rd)
	}
	current.Store(s)
	o.Sched = s.Run(t, root, picker, maxSteps)
	current.Store(nil)
	core.ResetLabelPins()

	for k, v := range ret.reads {
		o.Reads[k] += v
	}
	o.Fired.Merge(ret.fired)
	o.Picks, o.Log, o.Steps, o.Choices, o.MaxParked = s.Picks, s.Log, s.Steps, s.Choices, s.MaxParked
	o.Stragglers = s.Stragglers
	if err != nil {
		o.Err = err.Error()
		var ex syslutil.Exit
		if errors.As(err, &ex) {
			o.IsExit, o.ExitCode = true, ex.Code
		}
		o.ModelErr = mod != nil
	} else if o.Panic == "" {
		o.OK = mod != nil
		if mod == nil {
			o.Err = "nil module and nil error"
		}
	}
	if o.OK {
		var jb, tb bytes.Buffer
		if e := pbutil.FJSONPB(&jb, mod); e != nil {
			o.Err, o.OK = "serialise: "+e.Error(), false
		}
		_ = pbutil.FTextPB(&tb, mod)
		o.JSON, o.Text = jb.String(), tb.String()
		o.ModelHash = core.HashStrings(o.JSON)
		for _, name := range core.SortedKeys(mod.Apps) {
			o.Apps = append(o.Apps, name)
			app := mod.Apps[name]
			if name == "Shared" {
				for _, sc := range app.SourceContexts {
					o.Order = append(o.Order, reAt.ReplaceAllString(plainName(sc.File), ""))
				}
			} else if reFApp.MatchString(name) {
				for _, sc := range app.SourceContexts {
					o.SrcCtx = append(o.SrcCtx, name+" "+plainName(sc.File))
				}
			}
		}
	}
	analyseLog(w, o)
	return o
}

// plainName drops a leading "/" or "./" of a local file name: how the module argument
// was spelled is not part of what the property fixes.
func plainName(f string) string {
	if strings.HasPrefix(f, "//") {
		return f
	}
	return strings.TrimPrefix(path.Clean(f), "/")
}

// analyseLog derives the depth at which each file was claimed from the claim notes
// ("note claimed new <depth> <file>").
func analyseLog(w *Workload, o *Outcome) {
	for _, l := range o.Log {
		if rest, ok := strings.CutPrefix(l, "note claimed new "); ok {
			if k := strings.Index(rest, " "); k > 0 {
				d := 0
				fmt.Sscanf(rest[:k], "%d", &d)
				o.ClaimDepth[plainName(stripVersion(rest[k+1:]))] = d
			}
		}
	}
}
