module verif/sim

go 1.26.8
