// Package simfs is the simulated disk: an in-memory, recording, fault-injecting
// afero.Fs written from scratch (afero's MemMapFs panics inside Rename on some paths and
// lets a directory be read as an empty file).  Every call first goes through Hook, which
// is where a scheduler parks the caller, where a fault plan answers with an error, and
// where an invariant on the path arguments is evaluated.
package simfs

import (
	"io"
	"os"
	"path"
	"sort"
	"strings"
	"sync"
	"syscall"
	"time"

	"github.com/spf13/afero"
)

// Op is one call that reached the disk.
type Op struct {
	Seq   int
	Name  string   // Open, Stat, Rename, ...
	Paths []string // path arguments exactly as received
	Err   string   // error returned ("" = ok)
	Fault bool     // the error was injected
}

type node struct {
	dir   bool
	data  []byte
	mode  os.FileMode
	mtime time.Time
}

// Fs is the simulated disk.
type Fs struct {
	mu    sync.Mutex
	nodes map[string]*node // cleaned absolute path -> node
	Cwd   string           // what relative paths are relative to (default "/")
	Ops   []Op
	// Hook is called (without any lock held) before an operation touches the disk.
	// A non-nil error is returned to the caller as an injected fault.
	Hook func(op string, paths []string) error
	// ReadChunk, when > 0, makes File.Read return at most that many bytes (short reads).
	ReadChunk func(name string) int
	// ReadFault may fail a File.Read after off bytes have been delivered.
	ReadFault func(name string, off int64) error
	// CloseFault may fail File.Close.
	CloseFault func(name string) error
	// ShuffleDir, when set, reorders Readdir results.
	ShuffleDir func(names []string)
	Record     bool
	epoch      time.Time
}

var _ afero.Fs = (*Fs)(nil)

func New() *Fs {
	f := &Fs{nodes: map[string]*node{}, Cwd: "/", Record: true, epoch: time.Unix(946684800, 0)}
	f.nodes["/"] = &node{dir: true, mode: os.ModeDir | 0o755, mtime: f.epoch}
	return f
}

func (f *Fs) Name() string { return "SimFs" }

// Abs is the lexical resolution used by the disk itself.
func (f *Fs) Abs(p string) string {
	if !strings.HasPrefix(p, "/") {
		p = f.Cwd + "/" + p
	}
	return path.Clean(p)
}

func perr(op, p string, e error) error { return &os.PathError{Op: op, Path: p, Err: e} }

func (f *Fs) pre(op string, paths ...string) (int, error) {
	var err error
	if f.Hook != nil {
		err = f.Hook(op, paths)
	}
	f.mu.Lock()
	seq := len(f.Ops)
	if f.Record {
		o := Op{Seq: seq, Name: op, Paths: append([]string(nil), paths...)}
		if err != nil {
			o.Err, o.Fault = err.Error(), true
		}
		f.Ops = append(f.Ops, o)
	}
	f.mu.Unlock()
	return seq, err
}

func (f *Fs) post(seq int, err error) error {
	if err != nil && f.Record {
		f.mu.Lock()
		if seq < len(f.Ops) {
			f.Ops[seq].Err = err.Error()
		}
		f.mu.Unlock()
	}
	return err
}

// parentOK checks that the parent of abs is an existing directory.
func (f *Fs) parentOK(abs string) error {
	n, ok := f.nodes[path.Dir(abs)]
	if !ok {
		return syscall.ENOENT
	}
	if !n.dir {
		return syscall.ENOTDIR
	}
	return nil
}

// ---- population helpers (not recorded, never faulted) ----

func (f *Fs) PutFile(p string, data []byte) {
	abs := f.Abs(p)
	f.mu.Lock()
	defer f.mu.Unlock()
	f.mkdirAllLocked(path.Dir(abs))
	f.nodes[abs] = &node{data: append([]byte(nil), data...), mode: 0o644, mtime: f.epoch}
}

func (f *Fs) PutDir(p string) {
	f.mu.Lock()
	defer f.mu.Unlock()
	f.mkdirAllLocked(f.Abs(p))
}

func (f *Fs) mkdirAllLocked(abs string) error {
	if abs == "/" {
		return nil
	}
	if n, ok := f.nodes[abs]; ok {
		if n.dir {
			return nil
		}
		return syscall.ENOTDIR
	}
	if err := f.mkdirAllLocked(path.Dir(abs)); err != nil {
		return err
	}
	f.nodes[abs] = &node{dir: true, mode: os.ModeDir | 0o755, mtime: f.epoch}
	return nil
}

// Snapshot returns path -> content ("<dir>" for directories), for oracles.
func (f *Fs) Snapshot() map[string]string {
	f.mu.Lock()
	defer f.mu.Unlock()
	out := map[string]string{}
	for p, n := range f.nodes {
		if n.dir {
			out[p] = "<dir>"
		} else {
			out[p] = "f:" + string(n.data)
		}
	}
	return out
}

func (f *Fs) Exists(p string) bool {
	f.mu.Lock()
	defer f.mu.Unlock()
	_, ok := f.nodes[f.Abs(p)]
	return ok
}

func (f *Fs) ResetOps() {
	f.mu.Lock()
	f.Ops = nil
	f.mu.Unlock()
}

func (f *Fs) OpsCopy() []Op {
	f.mu.Lock()
	defer f.mu.Unlock()
	return append([]Op(nil), f.Ops...)
}

// ---- afero.Fs ----

func (f *Fs) Create(name string) (afero.File, error) {
	return f.OpenFile(name, os.O_RDWR|os.O_CREATE|os.O_TRUNC, 0o666)
}

func (f *Fs) Mkdir(name string, perm os.FileMode) error {
	seq, err := f.pre("Mkdir", name)
	if err != nil {
		return perr("mkdir", name, err)
	}
	abs := f.Abs(name)
	f.mu.Lock()
	defer f.mu.Unlock()
	if _, ok := f.nodes[abs]; ok {
		return f.postL(seq, perr("mkdir", name, syscall.EEXIST))
	}
	if e := f.parentOK(abs); e != nil {
		return f.postL(seq, perr("mkdir", name, e))
	}
	f.nodes[abs] = &node{dir: true, mode: os.ModeDir | perm.Perm(), mtime: f.epoch}
	return nil
}

// postL is post with f.mu already held.
func (f *Fs) postL(seq int, err error) error {
	if err != nil && f.Record && seq < len(f.Ops) {
		f.Ops[seq].Err = err.Error()
	}
	return err
}

func (f *Fs) MkdirAll(p string, perm os.FileMode) error {
	seq, err := f.pre("MkdirAll", p)
	if err != nil {
		return perr("mkdir", p, err)
	}
	f.mu.Lock()
	defer f.mu.Unlock()
	if e := f.mkdirAllLocked(f.Abs(p)); e != nil {
		return f.postL(seq, perr("mkdir", p, e))
	}
	return nil
}

func (f *Fs) Open(name string) (afero.File, error) {
	return f.open("Open", name, os.O_RDONLY, 0)
}

func (f *Fs) OpenFile(name string, flag int, perm os.FileMode) (afero.File, error) {
	return f.open("OpenFile", name, flag, perm)
}

func (f *Fs) open(op, name string, flag int, perm os.FileMode) (afero.File, error) {
	seq, err := f.pre(op, name)
	if err != nil {
		return nil, perr("open", name, err)
	}
	abs := f.Abs(name)
	f.mu.Lock()
	defer f.mu.Unlock()
	n, ok := f.nodes[abs]
	if !ok {
		if flag&os.O_CREATE == 0 {
			// distinguish ENOTDIR (a file used as a directory) from ENOENT
			e := error(syscall.ENOENT)
			for d := path.Dir(abs); ; d = path.Dir(d) {
				if x, ok := f.nodes[d]; ok {
					if !x.dir {
						e = syscall.ENOTDIR
					}
					break
				}
				if d == "/" {
					break
				}
			}
			return nil, f.postL(seq, perr("open", name, e))
		}
		if e := f.parentOK(abs); e != nil {
			return nil, f.postL(seq, perr("open", name, e))
		}
		n = &node{mode: perm.Perm(), mtime: f.epoch}
		f.nodes[abs] = n
	} else {
		if flag&(os.O_CREATE|os.O_EXCL) == os.O_CREATE|os.O_EXCL {
			return nil, f.postL(seq, perr("open", name, syscall.EEXIST))
		}
		if n.dir && flag&(os.O_WRONLY|os.O_RDWR) != 0 {
			return nil, f.postL(seq, perr("open", name, syscall.EISDIR))
		}
		if flag&os.O_TRUNC != 0 && !n.dir {
			n.data = nil
		}
	}
	h := &File{fs: f, n: n, name: name, abs: abs, flag: flag}
	if flag&os.O_APPEND != 0 {
		h.off = int64(len(n.data))
	}
	return h, nil
}

func (f *Fs) Remove(name string) error {
	seq, err := f.pre("Remove", name)
	if err != nil {
		return perr("remove", name, err)
	}
	abs := f.Abs(name)
	f.mu.Lock()
	defer f.mu.Unlock()
	n, ok := f.nodes[abs]
	if !ok {
		return f.postL(seq, perr("remove", name, syscall.ENOENT))
	}
	if abs == "/" {
		return f.postL(seq, perr("remove", name, syscall.EBUSY))
	}
	if n.dir && len(f.childrenLocked(abs)) > 0 {
		return f.postL(seq, perr("remove", name, syscall.ENOTEMPTY))
	}
	delete(f.nodes, abs)
	return nil
}

func (f *Fs) childrenLocked(abs string) []string {
	pre := abs
	if pre != "/" {
		pre += "/"
	}
	var out []string
	for p := range f.nodes {
		if p != abs && strings.HasPrefix(p, pre) && !strings.Contains(p[len(pre):], "/") {
			out = append(out, p)
		}
	}
	sort.Strings(out)
	return out
}

func (f *Fs) RemoveAll(p string) error {
	_, err := f.pre("RemoveAll", p)
	if err != nil {
		return perr("removeall", p, err)
	}
	abs := f.Abs(p)
	f.mu.Lock()
	defer f.mu.Unlock()
	if abs == "/" {
		for k := range f.nodes {
			if k != "/" {
				delete(f.nodes, k)
			}
		}
		return nil
	}
	for k := range f.nodes {
		if k == abs || strings.HasPrefix(k, abs+"/") {
			delete(f.nodes, k)
		}
	}
	return nil
}

func (f *Fs) Rename(oldname, newname string) error {
	seq, err := f.pre("Rename", oldname, newname)
	if err != nil {
		return &os.LinkError{Op: "rename", Old: oldname, New: newname, Err: err}
	}
	o, nw := f.Abs(oldname), f.Abs(newname)
	f.mu.Lock()
	defer f.mu.Unlock()
	fail := func(e error) error {
		return f.postL(seq, &os.LinkError{Op: "rename", Old: oldname, New: newname, Err: e})
	}
	src, ok := f.nodes[o]
	if !ok {
		return fail(syscall.ENOENT)
	}
	if o == "/" || nw == "/" {
		return fail(syscall.EBUSY)
	}
	if e := f.parentOK(nw); e != nil {
		return fail(e)
	}
	if o == nw {
		return nil
	}
	if src.dir && strings.HasPrefix(nw, o+"/") {
		return fail(syscall.EINVAL)
	}
	if dst, ok := f.nodes[nw]; ok {
		switch {
		case dst.dir && !src.dir:
			return fail(syscall.EISDIR)
		case !dst.dir && src.dir:
			return fail(syscall.ENOTDIR)
		case dst.dir && len(f.childrenLocked(nw)) > 0:
			return fail(syscall.ENOTEMPTY)
		}
	}
	moved := map[string]*node{}
	for k, n := range f.nodes {
		if k == o || strings.HasPrefix(k, o+"/") {
			moved[nw+k[len(o):]] = n
			delete(f.nodes, k)
		}
	}
	for k, n := range moved {
		f.nodes[k] = n
	}
	return nil
}

func (f *Fs) Stat(name string) (os.FileInfo, error) {
	seq, err := f.pre("Stat", name)
	if err != nil {
		return nil, perr("stat", name, err)
	}
	abs := f.Abs(name)
	f.mu.Lock()
	defer f.mu.Unlock()
	n, ok := f.nodes[abs]
	if !ok {
		return nil, f.postL(seq, perr("stat", name, syscall.ENOENT))
	}
	return infoOf(abs, n), nil
}

func (f *Fs) meta(op, name string, fn func(n *node)) error {
	seq, err := f.pre(op, name)
	if err != nil {
		return perr(strings.ToLower(op), name, err)
	}
	abs := f.Abs(name)
	f.mu.Lock()
	defer f.mu.Unlock()
	n, ok := f.nodes[abs]
	if !ok {
		return f.postL(seq, perr(strings.ToLower(op), name, syscall.ENOENT))
	}
	fn(n)
	return nil
}

func (f *Fs) Chmod(name string, mode os.FileMode) error {
	return f.meta("Chmod", name, func(n *node) { n.mode = n.mode&os.ModeDir | mode.Perm() })
}
func (f *Fs) Chown(name string, uid, gid int) error { return f.meta("Chown", name, func(n *node) {}) }
func (f *Fs) Chtimes(name string, atime, mtime time.Time) error {
	return f.meta("Chtimes", name, func(n *node) { n.mtime = mtime })
}

type info struct {
	name string
	n    *node
	size int64
}

func infoOf(abs string, n *node) os.FileInfo {
	return &info{name: path.Base(abs), n: n, size: int64(len(n.data))}
}
func (i *info) Name() string       { return i.name }
func (i *info) Size() int64        { return i.size }
func (i *info) Mode() os.FileMode  { return i.n.mode }
func (i *info) ModTime() time.Time { return i.n.mtime }
func (i *info) IsDir() bool        { return i.n.dir }
func (i *info) Sys() interface{}   { return nil }

// File is an open handle.
type File struct {
	fs     *Fs
	n      *node
	name   string
	abs    string
	flag   int
	off    int64
	closed bool
	dirPos int
}

var _ afero.File = (*File)(nil)

func (h *File) Name() string { return h.name }

func (h *File) Close() error {
	if h.closed {
		return perr("close", h.name, os.ErrClosed)
	}
	h.closed = true
	if h.fs.CloseFault != nil {
		if e := h.fs.CloseFault(h.abs); e != nil {
			return perr("close", h.name, e)
		}
	}
	return nil
}

func (h *File) Read(p []byte) (int, error) {
	if h.closed {
		return 0, perr("read", h.name, os.ErrClosed)
	}
	h.fs.mu.Lock()
	isDir := h.n.dir
	h.fs.mu.Unlock()
	if isDir {
		return 0, perr("read", h.name, syscall.EISDIR)
	}
	if h.fs.ReadFault != nil {
		if e := h.fs.ReadFault(h.abs, h.off); e != nil {
			return 0, perr("read", h.name, e)
		}
	}
	h.fs.mu.Lock()
	defer h.fs.mu.Unlock()
	if h.off >= int64(len(h.n.data)) {
		return 0, io.EOF
	}
	max := len(p)
	if h.fs.ReadChunk != nil {
		if c := h.fs.ReadChunk(h.abs); c > 0 && c < max {
			max = c
		}
	}
	n := copy(p[:max], h.n.data[h.off:])
	h.off += int64(n)
	return n, nil
}

func (h *File) ReadAt(p []byte, off int64) (int, error) {
	if h.closed {
		return 0, perr("read", h.name, os.ErrClosed)
	}
	h.fs.mu.Lock()
	defer h.fs.mu.Unlock()
	if h.n.dir {
		return 0, perr("read", h.name, syscall.EISDIR)
	}
	if off >= int64(len(h.n.data)) {
		return 0, io.EOF
	}
	n := copy(p, h.n.data[off:])
	if n < len(p) {
		return n, io.EOF
	}
	return n, nil
}

func (h *File) Seek(offset int64, whence int) (int64, error) {
	if h.closed {
		return 0, perr("seek", h.name, os.ErrClosed)
	}
	h.fs.mu.Lock()
	defer h.fs.mu.Unlock()
	var base int64
	switch whence {
	case io.SeekStart:
	case io.SeekCurrent:
		base = h.off
	case io.SeekEnd:
		base = int64(len(h.n.data))
	}
	if base+offset < 0 {
		return 0, perr("seek", h.name, syscall.EINVAL)
	}
	h.off = base + offset
	return h.off, nil
}

func (h *File) Write(p []byte) (int, error) {
	if h.closed {
		return 0, perr("write", h.name, os.ErrClosed)
	}
	if h.flag&(os.O_WRONLY|os.O_RDWR) == 0 {
		return 0, perr("write", h.name, syscall.EBADF)
	}
	if _, err := h.fs.pre("Write", h.abs); err != nil {
		return 0, perr("write", h.name, err)
	}
	h.fs.mu.Lock()
	defer h.fs.mu.Unlock()
	if h.flag&os.O_APPEND != 0 {
		h.off = int64(len(h.n.data))
	}
	end := h.off + int64(len(p))
	if end > int64(len(h.n.data)) {
		nd := make([]byte, end)
		copy(nd, h.n.data)
		h.n.data = nd
	}
	copy(h.n.data[h.off:], p)
	h.off = end
	return len(p), nil
}

func (h *File) WriteAt(p []byte, off int64) (int, error) {
	if _, err := h.Seek(off, io.SeekStart); err != nil {
		return 0, err
	}
	return h.Write(p)
}

func (h *File) WriteString(s string) (int, error) { return h.Write([]byte(s)) }

func (h *File) Readdir(count int) ([]os.FileInfo, error) {
	if h.closed {
		return nil, perr("readdir", h.name, os.ErrClosed)
	}
	h.fs.mu.Lock()
	if !h.n.dir {
		h.fs.mu.Unlock()
		return nil, perr("readdir", h.name, syscall.ENOTDIR)
	}
	kids := h.fs.childrenLocked(h.abs)
	infos := map[string]os.FileInfo{}
	for _, k := range kids {
		infos[k] = infoOf(k, h.fs.nodes[k])
	}
	h.fs.mu.Unlock()
	if h.fs.ShuffleDir != nil && h.dirPos == 0 {
		h.fs.ShuffleDir(kids)
	}
	rest := kids[min(h.dirPos, len(kids)):]
	if count > 0 {
		if len(rest) == 0 {
			return nil, io.EOF
		}
		if len(rest) > count {
			rest = rest[:count]
		}
	}
	h.dirPos += len(rest)
	out := make([]os.FileInfo, len(rest))
	for i, k := range rest {
		out[i] = infos[k]
	}
	return out, nil
}

func (h *File) Readdirnames(n int) ([]string, error) {
	fi, err := h.Readdir(n)
	out := make([]string, len(fi))
	for i := range fi {
		out[i] = fi[i].Name()
	}
	return out, err
}

func (h *File) Stat() (os.FileInfo, error) {
	h.fs.mu.Lock()
	defer h.fs.mu.Unlock()
	return infoOf(h.abs, h.n), nil
}

func (h *File) Sync() error { return nil }

func (h *File) Truncate(size int64) error {
	if h.closed {
		return perr("truncate", h.name, os.ErrClosed)
	}
	h.fs.mu.Lock()
	defer h.fs.mu.Unlock()
	if size < int64(len(h.n.data)) {
		h.n.data = h.n.data[:size]
	} else {
		nd := make([]byte, size)
		copy(nd, h.n.data)
		h.n.data = nd
	}
	return nil
}
