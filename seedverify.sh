#!/bin/bash
# seedverify.sh <change-dir> : confirm in the scratch worktree /tmp/wt/verify that the
# patch applies and builds, that the demonstration fails with it and passes without it.
D=$1; WT=/tmp/wt/verify
export GOFLAGS=-mod=mod GOPROXY=off GOSUMDB=off
[ -d $WT ] || { mkdir -p $(dirname $WT); git -C ${VERIF_REPO:-/repo} worktree add -q --detach $WT HEAD || exit 3; }   # scratch worktree (remove it afterwards: git -C /repo worktree remove --force /tmp/wt/verify)
git -C $WT checkout -q -- . ; git -C $WT clean -fdq
declare -A PK=( [parse]=pkg/parse [syslutil]=pkg/syslutil [loader]=pkg/loader [sequencediagram]=pkg/sequencediagram [integrationdiagram]=pkg/integrationdiagram [parse_test]=pkg/parse [loader_test]=pkg/loader [syslutil_test]=pkg/syslutil [main]=cmd/sysl [exporter]=pkg/exporter [pbutil]=pkg/pbutil [cmdutils]=pkg/cmdutils [datamodeldiagram]=pkg/datamodeldiagram [database]=pkg/database [importer]=pkg/importer [relmod]=pkg/arrai/relmod [parser]=pkg/grammar [mermaid]=pkg/mermaid [diagrams]=pkg/diagrams [pbutil_test]=pkg/pbutil [exporter_test]=pkg/exporter [cmdutils_test]=pkg/cmdutils [importer_test]=pkg/importer )
pkgs=""
place() { for t in $D/zz_*_test.go; do p=$(grep -m1 '^package ' $t | awk '{print $2}'); dir=${PK[$p]}; [ -z "$dir" ] && { echo "unknown package $p"; exit 3; }; cp $t $WT/$dir/; pkgs="$pkgs ./$dir"; done; }
RACE=""; for N in $D/README.md $D/AUTHOR_NOTES.md; do [ -f $N ] && grep -qi "go test -race\|-race" $N && grep -qi "race detector" $N && RACE="-race"; done
[ -n "${FORCE_RACE:-}" ] && RACE=$FORCE_RACE
git -C $WT apply $D/patch.diff || { echo "PATCH DOES NOT APPLY"; exit 3; }
(cd $WT && go build ./... ) || { echo "BUILD FAILS"; exit 3; }
place; pkgs=$(echo $pkgs | tr ' ' '\n' | sort -u | tr '\n' ' ')
(cd $WT && go test $RACE -vet=off -count=1 -timeout 20m -run 'Demo|ZZ|C07|C18|C19|C05|C06' $pkgs > /tmp/wt/with.log 2>&1); rc_with=$?
git -C $WT checkout -q -- .
(cd $WT && go test $RACE -vet=off -count=1 -timeout 20m -run 'Demo|ZZ|C07|C18|C19|C05|C06' $pkgs > /tmp/wt/without.log 2>&1); rc_without=$?
git -C $WT clean -fdq
echo "$(basename $(dirname $D))/$(basename $D): race='$RACE' demo with change rc=$rc_with ($(grep -c '^--- FAIL' /tmp/wt/with.log) failing tests), without rc=$rc_without ($(grep -c '^--- FAIL' /tmp/wt/without.log) failing)"
