#!/bin/bash
# selftest-clean.sh [seed ...] — no-false-alarm self-test: every quick check must exit 0 on
# the unchanged tree for each given seed (default: three seeds).
cd "$(dirname "$0")"
seeds=${@:-"20260926 3 8"}
bad=0
for s in $seeds; do for p in C05 C06 C07 C18 C19; do
  out=$(VERIF_SEED=$s VERIF_BUDGET_S=${CLEAN_BUDGET:-25} ./check $p quick 2>&1); rc=$?
  echo "seed=$s $p rc=$rc $(echo "$out" | grep '^SUMMARY' | cut -c1-140)"
  if [ $p = C19 ] && grep -q generated_foreign_document_rejected evidence/C19.json; then bad=1; echo "  the generated foreign document is rejected by its importer: its content is not being compared"; fi
  [ $rc = 0 ] || { bad=1; echo "$out" | grep -A1 '^VIOLATION\|HARNESS' | head -6 | cut -c1-300; }
done; done
exit $bad
