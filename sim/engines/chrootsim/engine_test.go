package chrootsim

import (
	"encoding/json"
	"fmt"
	"os"
	"path/filepath"
	"strings"
	"testing"
	"time"

	"verif/sim/core"
)

type ReplayFile struct {
	Property string `json:"property"`
	Engine   string `json:"engine"`
	Driver   string `json:"driver"` // ops | sweep | loader
	Seed     uint64 `json:"seed"`
	Class    string `json:"class"`
	Detail   string `json:"detail"`
	Case     *Case  `json:"case,omitempty"`
	LCase    *LCase `json:"lcase,omitempty"`
}

func hasClass(vs []V, class string) (V, bool) {
	for _, v := range vs {
		if v.Class == class {
			return v, true
		}
	}
	return V{}, false
}

// minimiseOps drops operations while the same class persists.
func minimiseOps(c *Case, class string) (*Case, V) {
	cur := *c
	v, _ := hasClass(RunCase(&cur, core.Counters{}), class)
	// cut everything after the violating step first
	if v.Step+1 < len(cur.Ops) {
		t := cur
		t.Ops = append([]OpSpec(nil), cur.Ops[:v.Step+1]...)
		if v2, ok := hasClass(RunCase(&t, core.Counters{}), class); ok {
			cur, v = t, v2
		}
	}
	for i := len(cur.Ops) - 1; i >= 0 && len(cur.Ops) > 1; i-- {
		t := cur
		t.Ops = append(append([]OpSpec(nil), cur.Ops[:i]...), cur.Ops[i+1:]...)
		if v2, ok := hasClass(RunCase(&t, core.Counters{}), class); ok {
			cur, v = t, v2
		}
	}
	// drop faults
	for i := range cur.Ops {
		if cur.Ops[i].Fault != "" {
			t := cur
			t.Ops = append([]OpSpec(nil), cur.Ops...)
			t.Ops[i].Fault = ""
			if v2, ok := hasClass(RunCase(&t, core.Counters{}), class); ok {
				cur, v = t, v2
			}
		}
	}
	return &cur, v
}

func minimiseL(c *LCase, class string) (*LCase, V) {
	clone := func(x *LCase) *LCase {
		b, _ := json.Marshal(x)
		var y LCase
		_ = json.Unmarshal(b, &y)
		if y.Faults == nil {
			y.Faults = map[string]string{}
		}
		return &y
	}
	cur := clone(c)
	_, vs := RunLCase(cur, core.Counters{})
	v, _ := hasClass(vs, class)
	try := func(t *LCase) bool {
		_, vs := RunLCase(t, core.Counters{})
		if v2, ok := hasClass(vs, class); ok {
			cur, v = t, v2
			return true
		}
		return false
	}
	for _, p := range core.SortedKeys(cur.Faults) {
		t := clone(cur)
		delete(t.Faults, p)
		try(t)
	}
	for _, p := range core.SortedKeys(cur.Files) {
		lines := strings.Split(cur.Files[p], "\n")
		for i := len(lines) - 1; i >= 0; i-- {
			if strings.HasPrefix(lines[i], "import ") {
				t := clone(cur)
				l2 := strings.Split(t.Files[p], "\n")
				if i < len(l2) {
					t.Files[p] = strings.Join(append(l2[:i:i], l2[i+1:]...), "\n")
					try(t)
				}
			}
		}
	}
	if cur.MaxDepth > 0 {
		t := clone(cur)
		t.MaxDepth = 0
		try(t)
	}
	return cur, v
}

func writeReplay(c core.Cfg, rf ReplayFile) string {
	name := fmt.Sprintf("%s-%s-%s-%d.json", c.Property, rf.Driver, core.SafeName(rf.Class), rf.Seed)
	p := filepath.Join(core.ReplayDir(), name)
	if err := core.WriteJSON(p, rf); err != nil {
		core.Fatal2("write replay: %v", err)
	}
	return p
}

// sweep enumerates every path of up to maxSeg segments over a small alphabet, relative
// and absolute, for every root and every wrapper operation (Rename: the path as source
// with a fixed inside target, and as target with a fixed inside source).
func sweep(worker, nw, maxSeg int, cnt core.Counters, report func(c *Case, v V), deadline time.Time) int64 {
	alpha := []string{"", ".", "..", "a", "b.c", "x y"}
	var n int64
	idx := 0
	var rec func(segs []string)
	emit := func(p string) {
		idx++
		if idx%nw != worker {
			return
		}
		for _, root := range roots {
			c := &Case{Root: root}
			for _, op := range allOps {
				if op == "Rename" {
					c.Ops = append(c.Ops, OpSpec{Op: op, P1: p, P2: "a/moved"}, OpSpec{Op: op, P1: "f.sysl", P2: p})
				} else {
					o := OpSpec{Op: op, P1: p}
					if op == "OpenFile" {
						o.Flag = os.O_RDWR | os.O_CREATE
					}
					c.Ops = append(c.Ops, o)
				}
			}
			// one inner call of the sequence fails with an injected error
			k := int(core.HashStrings(p, root) % uint64(len(c.Ops)*2))
			if k < len(c.Ops) {
				c.Ops[k].Fault = []string{"ENOENT", "EACCES", "EIO", "ENOSPC"}[k%4]
			}
			vs := RunCase(c, cnt)
			n += int64(len(c.Ops))
			for _, v := range vs {
				report(c, v)
			}
		}
	}
	rec = func(segs []string) {
		if time.Now().After(deadline) {
			return
		}
		if len(segs) > 0 {
			p := strings.Join(segs, "/")
			emit(p)
			emit("/" + p)
		}
		if len(segs) == maxSeg {
			return
		}
		for _, a := range alpha {
			rec(append(segs, a))
		}
	}
	rec(nil)
	return n
}

func worker(t *testing.T, c core.Cfg) {
	start := time.Now()
	part := &core.Partial{Worker: c.Worker, Counters: core.Counters{}}
	nw := int(core.EnvInt("VERIF_WORKERS", 1))
	total := time.Duration(c.BudgetS * float64(time.Second))
	distinct := map[uint64]bool{}
	seenClass := map[string]bool{}
	maxViol := 8

	reportOps := func(driver string, seed uint64) func(cs *Case, v V) {
		return func(cs *Case, v V) {
			key := driver + "|" + v.Class
			part.Counters.Inc("raw_violation_" + v.Class)
			if seenClass[key] || len(part.Violations) >= maxViol {
				return
			}
			seenClass[key] = true
			// reproduce twice before believing it
			for k := 0; k < 2; k++ {
				if _, ok := hasClass(RunCase(cs, core.Counters{}), v.Class); !ok {
					part.HarnessErr = fmt.Sprintf("violation %s of case seed %d did not reproduce", v.Class, seed)
					return
				}
			}
			mc, mv := minimiseOps(cs, v.Class)
			p := writeReplay(c, ReplayFile{Property: c.Property, Engine: "chrootsim", Driver: driver, Seed: seed, Class: mv.Class, Detail: mv.Detail, Case: mc})
			part.Violations = append(part.Violations, core.ViolationRec{Class: driver + "/" + mv.Class, Detail: mv.Detail, Replay: p, Seed: seed})
		}
	}

	// phase 0 (worker 0): every path-taking method of the wrapper, found by reflection
	if c.Worker == 0 {
		for _, v := range ReflectSweep(part.Counters) {
			key := "reflect|" + v.Class
			part.Counters.Inc("raw_violation_" + v.Class)
			if seenClass[key] {
				continue
			}
			seenClass[key] = true
			p := writeReplay(c, ReplayFile{Property: c.Property, Engine: "chrootsim", Driver: "reflect", Class: v.Class, Detail: v.Detail})
			part.Violations = append(part.Violations, core.ViolationRec{Class: "reflect/" + v.Class, Detail: v.Detail, Replay: p})
		}
	}

	// phase 1: exhaustive path sweep (bounded by segments and by a share of the budget)
	maxSeg := 4
	if c.Tier == "thorough" {
		maxSeg = 7
	}
	sweepDeadline := start.Add(total * 25 / 100)
	nSweep := sweep(c.Worker, nw, maxSeg, part.Counters, reportOps("sweep", 0), sweepDeadline)
	part.Evaluations += nSweep
	part.Counters.Add("sweep_operations", nSweep)
	if time.Now().After(sweepDeadline) {
		part.Counters.Inc("sweep_cut_short_by_budget")
	}

	// phase 2: seeded operation sequences with faults
	d1 := start.Add(total * 55 / 100)
	for g := c.Worker; time.Now().Before(d1) && part.HarnessErr == ""; g += nw {
		seed := core.Derive(c.Seed, "C18", "ops", fmt.Sprint(g))
		cs := GenCase(seed)
		vs := RunCase(cs, part.Counters)
		part.Evaluations += int64(len(cs.Ops))
		part.Cases++
		var sig []string
		for _, o := range cs.Ops {
			_, in1 := resolve(cs.Root, o.P1)
			sig = append(sig, fmt.Sprintf("%s:%v:%s", o.Op, in1, o.Fault))
		}
		if len(cs.Ops) >= 2 {
			distinct[core.HashStrings(append(sig, cs.Root)...)] = true
		}
		for _, v := range vs {
			reportOps("ops", seed)(cs, v)
		}
		if len(part.Samples) < 1 && g >= 3*nw {
			b, _ := json.Marshal(cs)
			part.Samples = append(part.Samples, b)
		}
	}

	// phase 3: loader + parser on hostile spellings
	d2 := start.Add(total)
	for g := c.Worker; time.Now().Before(d2) && part.HarnessErr == ""; g += nw {
		seed := core.Derive(c.Seed, "C18", "loader", fmt.Sprint(g))
		lc := GenLCase(seed)
		if g%16 == 5 {
			lc = GenExtRefCase(seed)
		}
		if os.Getenv("VERIF_DEBUG") != "" {
			_ = core.WriteJSON(filepath.Join(c.OutDir, fmt.Sprintf("current-%d.json", c.Worker)), lc)
		}
		res, vs := RunLCase(lc, part.Counters)
		core.Heartbeat.Add(1)
		part.Evaluations++
		part.Cases++
		part.Counters.Inc("loader_runs")
		part.Counters.Add("loader_disk_calls", int64(res.Ops))
		distinct[core.HashStrings("L", lc.Root, lc.Module, fmt.Sprint(lc.Explicit), lc.Marker, fmt.Sprint(len(lc.Faults)), strings.Join(core.SortedKeys(lc.Files), "|"), fmt.Sprint(seed%97))] = true
		for _, v := range vs {
			key := "loader|" + v.Class
			part.Counters.Inc("raw_violation_" + v.Class)
			if seenClass[key] || len(part.Violations) >= maxViol {
				continue
			}
			seenClass[key] = true
			for k := 0; k < 2; k++ {
				_, vs2 := RunLCase(lc, core.Counters{})
				if _, ok := hasClass(vs2, v.Class); !ok {
					part.HarnessErr = fmt.Sprintf("loader violation %s of seed %d did not reproduce", v.Class, seed)
				}
			}
			mc, mv := minimiseL(lc, v.Class)
			p := writeReplay(c, ReplayFile{Property: c.Property, Engine: "chrootsim", Driver: "loader", Seed: seed, Class: mv.Class, Detail: mv.Detail, LCase: mc})
			part.Violations = append(part.Violations, core.ViolationRec{Class: "loader/" + mv.Class, Sig: mv.Sig, Detail: mv.Detail, Replay: p, Seed: seed})
		}
		if len(part.Samples) < 2 && g >= 2*nw {
			b, _ := json.Marshal(lc)
			part.Samples = append(part.Samples, b)
		}
	}
	for h := range distinct {
		part.Distinct = append(part.Distinct, h)
	}
	part.WallS = time.Since(start).Seconds()
	if err := core.WriteJSON(c.PartPath(c.Worker), part); err != nil {
		core.Fatal2("write partial: %v", err)
	}
}

func replay(c core.Cfg) int {
	var rf ReplayFile
	if err := core.ReadJSON(c.Replay, &rf); err != nil {
		core.Fatal2("replay file: %v", err)
	}
	var vs []V
	if rf.Driver == "reflect" {
		vs = ReflectSweep(core.Counters{})
	} else if rf.LCase != nil {
		if rf.LCase.Faults == nil {
			rf.LCase.Faults = map[string]string{}
		}
		_, vs = RunLCase(rf.LCase, core.Counters{})
	} else {
		vs = RunCase(rf.Case, core.Counters{})
	}
	if v, ok := hasClass(vs, rf.Class); ok {
		fmt.Printf("VIOLATION property=%s replay=%s\n  detail: [%s] %s\n", rf.Property, c.Replay, v.Class, core.OneLine(core.Trunc(v.Detail, 600)))
		return 1
	}
	fmt.Printf("replay: class %q did not recur\n", rf.Class)
	return 0
}

func TestEngine(t *testing.T) {
	c := core.LoadCfg()
	if c.Property != "C18" {
		core.Fatal2("chrootsim serves C18, not %q", c.Property)
	}
	if c.Replay != "" {
		var probe struct {
			Driver string `json:"driver"`
		}
		_ = core.ReadJSON(c.Replay, &probe)
		if probe.Driver == "cli" {
			core.Fatal2("replay files of the command-line driver are replayed by the CLI binary: ./check C18 --replay does that automatically")
		}
		os.Exit(replay(c))
	}
	if c.Worker >= 0 {
		core.QuietStderr()
		worker(t, c)
		return
	}
	start := time.Now()
	cli := c
	cli.Mode, cli.Bin = "cli", os.Getenv("VERIF_BIN_ORDER")
	if cli.Bin == "" {
		core.Fatal2("VERIF_BIN_ORDER not set (run through ./check)")
	}
	ncli := 3
	done := make(chan []*core.Partial, 1)
	go func() { done <- core.SpawnWorkers(cli, ncli, nil, func(i int) int { return []int{1, 4, 16}[i%3] }) }()
	parts := core.SpawnWorkers(c, c.Workers-ncli, nil, func(i int) int { return []int{1, 4, 16}[i%3] })
	parts = append(parts, (<-done)...)
	m := core.Merge(parts)
	rule := "one evaluation = one filesystem operation issued through the real syslutil.ChrootFs over a recording, fault-injecting simulated disk " +
		"(sweep: every path of <= N segments over {'', '.', '..', a, b.c, 'x y'}, relative and absolute, x 6 roots x 15 operations; ops: seeded sequences of 1-30 operations; " +
		"loader: one load of a generated project through loader.LoadSyslModuleWithSettings; cli: the same projects through the whole command line, sysl --root R pb ... MODULE); distinct_nontrivial = distinct (root, per-operation (kind, inside/outside, fault)) " +
		"signatures of seeded sequences with >= 2 operations plus distinct loader trees"
	extra := map[string]interface{}{
		"simulated_time":     "none (no clock in the anchored code); faults are injected per inner call",
		"components_real":    []string{"syslutil.ChrootFs", "loader.ConfigureProject/LoadSyslModuleWithSettings", "cmd/sysl main2/main3/cmdRunner (driver cli)", "parse.Parser incl. import resolution", "golden-retriever remotefs/filesystem"},
		"components_stub":    []string{"disk (SimFs, with a populated area outside the root)"},
		"sweep_max_segments": map[string]int{"quick": 4, "thorough": 7}[c.Tier],
	}
	code := core.Finish(c, "fault_enumeration", m, rule, extra, []string{
		"the observation point is the inner afero.Fs: a call that never reaches it cannot escape",
		"lexical confinement only (no symlinks in the simulated disk), as the property states it",
		"marker discovery (.sysl/.git Stat calls in ancestors of the module) happens before a root is in force and is whitelisted",
	}, start)
	os.Exit(code)
}
