// Package core is the simulation kernel: PRNG, cooperative scheduler, replay files,
// evidence and known-findings handling.  It has no dependency on sysl.
package core

import (
	"hash/fnv"
	"sort"
)

// Rand is a splitmix64 stream.  Every choice of a run derives from one of these.
type Rand struct{ s uint64 }

func NewRand(seed uint64) *Rand { return &Rand{s: seed} }

func (r *Rand) Uint64() uint64 {
	r.s += 0x9e3779b97f4a7c15
	z := r.s
	z = (z ^ (z >> 30)) * 0xbf58476d1ce4e5b9
	z = (z ^ (z >> 27)) * 0x94d049bb133111eb
	return z ^ (z >> 31)
}

// Intn returns a value in [0,n). n must be > 0.
func (r *Rand) Intn(n int) int {
	if n <= 0 {
		panic("Intn: n <= 0")
	}
	return int(r.Uint64() % uint64(n))
}

// Range returns a value in [lo,hi].
func (r *Rand) Range(lo, hi int) int { return lo + r.Intn(hi-lo+1) }

func (r *Rand) Float() float64 { return float64(r.Uint64()>>11) / (1 << 53) }

func (r *Rand) Chance(p float64) bool { return r.Float() < p }

func (r *Rand) Pick(xs []string) string { return xs[r.Intn(len(xs))] }

func (r *Rand) Shuffle(n int, swap func(i, j int)) {
	for i := n - 1; i > 0; i-- {
		j := r.Intn(i + 1)
		swap(i, j)
	}
}

// Fork derives an independent stream.
func (r *Rand) Fork() *Rand { return NewRand(r.Uint64()) }

// Derive hashes a seed with a list of labels into a new seed; a run's seed identifies
// it without reference to worker count or position in a batch.
func Derive(seed uint64, labels ...string) uint64 {
	h := fnv.New64a()
	var b [8]byte
	for i := 0; i < 8; i++ {
		b[i] = byte(seed >> (8 * i))
	}
	h.Write(b[:])
	for _, l := range labels {
		h.Write([]byte{0})
		h.Write([]byte(l))
	}
	x := h.Sum64()
	// final avalanche
	x = (x ^ (x >> 30)) * 0xbf58476d1ce4e5b9
	x = (x ^ (x >> 27)) * 0x94d049bb133111eb
	x ^= x >> 31
	if x == 0 {
		x = 1
	}
	return x
}

// HashStrings is a stable 64-bit hash of a list of strings.
func HashStrings(xs ...string) uint64 { return Derive(0x51a1, xs...) }

// SortedKeys returns the keys of a string-keyed map in sorted order; harness code
// iterates maps only through this.
func SortedKeys[V any](m map[string]V) []string {
	ks := make([]string, 0, len(m))
	for k := range m {
		ks = append(ks, k)
	}
	sort.Strings(ks)
	return ks
}
