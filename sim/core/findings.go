package core

import (
	"fmt"
	"os"
	"path/filepath"
)

// Finding is one entry of /verif/known_findings.json (committed, never written at run time).
type Finding struct {
	Property  string `json:"property"`
	ID        string `json:"id"`
	Status    string `json:"status"` // open | fixed
	Signature string `json:"signature"`
	Commit    string `json:"commit,omitempty"`
	Text      string `json:"text"`
}

type Findings struct {
	Findings []Finding `json:"findings"`
}

// VerifDir is /verif (or $VERIF_DIR).
func VerifDir() string { return EnvStr("VERIF_DIR", "/verif") }

func LoadFindings() Findings {
	var f Findings
	p := filepath.Join(VerifDir(), "known_findings.json")
	if _, err := os.Stat(p); err != nil {
		return f
	}
	if err := ReadJSON(p, &f); err != nil {
		Fatal2("known_findings.json: %v", err)
	}
	return f
}

// Open returns the open findings of a property, keyed by signature.
func (f Findings) Open(property string) map[string]Finding {
	out := map[string]Finding{}
	for _, x := range f.Findings {
		if x.Property == property && x.Status == "open" {
			out[x.Signature] = x
		}
	}
	return out
}

// Reporter collects verdict lines so that each known finding is printed once.
type Reporter struct {
	Property   string
	open       map[string]Finding
	seenKnown  map[string]bool
	Violations int
	Known      int
}

func NewReporter(property string) *Reporter {
	return &Reporter{Property: property, open: LoadFindings().Open(property), seenKnown: map[string]bool{}}
}

// IsKnown reports whether a violation signature is listed as an open finding.
func (r *Reporter) IsKnown(sig string) bool { _, ok := r.open[sig]; return ok }

// Report prints either a KNOWN-FINDING line (once per signature) or a VIOLATION line.
func (r *Reporter) Report(sig, replayPath, detail string) {
	if f, ok := r.open[sig]; ok {
		r.Known++
		if !r.seenKnown[sig] {
			r.seenKnown[sig] = true
			fmt.Printf("KNOWN-FINDING: property=%s %s [%s] %s\n", r.Property, f.ID, sig, f.Text)
		}
		return
	}
	r.Violations++
	fmt.Printf("VIOLATION property=%s replay=%s\n", r.Property, replayPath)
	if detail != "" {
		fmt.Printf("  detail: %s\n", detail)
	}
}
