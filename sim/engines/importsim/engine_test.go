package importsim

import (
	"encoding/json"
	"fmt"
	"os"
	"path/filepath"
	"strings"
	"sync"
	"testing"
	"time"

	"verif/sim/core"
)

// ReplayFile is the self-contained description of one violating execution.
type ReplayFile struct {
	Property string    `json:"property"`
	Engine   string    `json:"engine"`
	Seed     uint64    `json:"seed"`
	Faulty   bool      `json:"faulty"`
	Class    string    `json:"class"`
	Sig      string    `json:"sig,omitempty"`
	Detail   string    `json:"detail"`
	Workload *Workload `json:"workload"`
	Picks    []string  `json:"picks"`
	Base     []string  `json:"baseline_picks,omitempty"` // second schedule for cross-schedule classes
	Expected *Expect   `json:"expected"`
	Observed *Outcome  `json:"observed"`
	Note     string    `json:"note,omitempty"`
}

func maxSteps(w *Workload) int {
	edges := 0
	for _, f := range w.Files {
		edges += len(f.Imports)
	}
	return 4*(edges+len(w.Files)) + 16
}

// choosePicker draws a scheduling policy for one run (swarm style).
func choosePicker(seed uint64, w *Workload) (core.Picker, string) {
	r := core.NewRand(seed)
	switch r.Intn(7) {
	case 0:
		return core.Uniform{R: r}, "uniform"
	case 1:
		return core.ByAge{R: r, Newest: true, Eps: 0.1}, "newest-first"
	case 2:
		return core.ByAge{R: r, Newest: false, Eps: 0.1}, "oldest-first"
	case 3, 4:
		// delay the reads / claims of one or two files
		var v []string
		k := 1 + r.Intn(2)
		for i := 0; i < k; i++ {
			f := w.Files[r.Intn(len(w.Files))]
			if r.Chance(0.5) {
				v = append(v, "open /"+f.Path+"#", "retrieve "+f.Path+"@")
			} else {
				v = append(v, "claim "+f.Path)
			}
		}
		return core.Victim{R: r, Victims: v}, "victim-delay"
	case 5:
		ch := map[int]bool{}
		for i := 0; i < r.Intn(4); i++ {
			ch[r.Intn(maxSteps(w))] = true
		}
		return core.PCT{Seed: r.Uint64(), Changes: ch, R: r}, "pct"
	default:
		return core.Uniform{R: r}, "uniform"
	}
}

type found struct {
	v     Violation
	w     *Workload
	picks []string
	base  []string
	o     *Outcome
}

// classOf re-executes (strict or tolerant trace) and reports whether class recurs.
func reproduce(t *testing.T, w *Workload, picks, base []string, class string, faulty, tolerant bool) (bool, *Outcome, []string, []string, string) {
	e := Model(w)
	var bo *Outcome
	if base != nil {
		tr := &core.Trace{Keys: base, Tolerant: tolerant}
		bo = Execute(t, w, tr, maxSteps(w))
		if bo.Sched.Diverged != "" {
			return false, bo, nil, nil, bo.Sched.Diverged
		}
	}
	tr := &core.Trace{Keys: picks, Tolerant: tolerant}
	o := Execute(t, w, tr, maxSteps(w))
	if o.Sched.Diverged != "" {
		return false, o, nil, nil, o.Sched.Diverged
	}
	for _, v := range Check(w, e, o, bo, faulty) {
		if v.Class == class {
			var bp []string
			if bo != nil {
				bp = bo.Picks
			}
			return true, o, o.Picks, bp, ""
		}
	}
	return false, o, nil, nil, ""
}

// rebuild re-renders all texts after a structural change and re-applies content faults.
func rebuild(w *Workload) {
	for _, f := range w.Files {
		f.Text = render(w, f)
	}
	for i := range w.Faults {
		applyContentFault(w.Files[w.Faults[i].File], &w.Faults[i])
	}
}

func cloneWorkload(w *Workload) *Workload {
	b, _ := json.Marshal(w)
	var c Workload
	_ = json.Unmarshal(b, &c)
	return &c
}

// minimise shrinks faults, import edges and picks while the same class persists.
func minimise(t *testing.T, f found, faulty bool, budget int) found {
	stop := time.Now().Add(20 * time.Second)
	try := func(w *Workload, picks, base []string) (bool, found) {
		if time.Now().After(stop) {
			budget = 0
		}
		if budget <= 0 {
			return false, f
		}
		budget--
		ok, o, p2, b2, _ := reproduce(t, w, picks, base, f.v.Class, faulty, true)
		if !ok {
			return false, f
		}
		// keep the signature stable: a shrunk case must stay in the same finding class
		e := Model(w)
		var bo *Outcome
		if b2 != nil {
			bo = Execute(t, w, &core.Trace{Keys: b2, Tolerant: true}, maxSteps(w))
		}
		for _, v := range Check(w, e, o, bo, faulty) {
			if v.Class == f.v.Class && v.Sig == f.v.Sig {
				return true, found{v: v, w: w, picks: p2, base: b2, o: o}
			}
		}
		return false, f
	}
	changed := true
	for changed && budget > 0 {
		changed = false
		// drop faults (content faults need the text rebuilt)
		for i := 0; i < len(f.w.Faults); i++ {
			c := cloneWorkload(f.w)
			c.Faults = append(c.Faults[:i:i], c.Faults[i+1:]...)
			rebuild(c)
			if ok, nf := try(c, f.picks, f.base); ok {
				f, changed = nf, true
				i--
			}
		}
		// drop import lines
		for fi := 0; fi < len(f.w.Files); fi++ {
			for k := 0; k < len(f.w.Files[fi].Imports); k++ {
				c := cloneWorkload(f.w)
				im := c.Files[fi].Imports
				c.Files[fi].Imports = append(im[:k:k], im[k+1:]...)
				rebuild(c)
				if ok, nf := try(c, f.picks, f.base); ok {
					f, changed = nf, true
					k--
				}
			}
		}
		// remove the depth limit / buggify
		if f.w.MaxDepth > 0 {
			c := cloneWorkload(f.w)
			c.MaxDepth = 0
			if ok, nf := try(c, f.picks, f.base); ok {
				f, changed = nf, true
			}
		}
		if len(f.w.Buggify) > 0 {
			c := cloneWorkload(f.w)
			c.Buggify = nil
			if ok, nf := try(c, f.picks, f.base); ok {
				f, changed = nf, true
			}
		}
		// canonicalise the schedule from the end: cut the trace (the tolerant replayer
		// continues with the canonical first choice)
		for cut := len(f.picks) / 2; cut >= 1 && budget > 0; cut /= 2 {
			for len(f.picks) >= cut {
				if ok, nf := try(f.w, f.picks[:len(f.picks)-cut], f.base); ok && len(nf.picks) <= len(f.picks) {
					if eq := strings.Join(nf.picks, "\n") == strings.Join(f.picks, "\n"); eq {
						break
					}
					f, changed = nf, true
				} else {
					break
				}
			}
		}
	}
	return f
}

func writeReplay(c core.Cfg, f found, faulty bool, gseed uint64) string {
	rf := ReplayFile{Property: c.Property, Engine: "importsim", Seed: gseed, Faulty: faulty,
		Class: f.v.Class, Sig: f.v.Sig, Detail: f.v.Detail, Workload: f.w, Picks: f.picks, Base: f.base,
		Expected: Model(f.w), Observed: f.o}
	name := fmt.Sprintf("%s-%s-%d.json", c.Property, core.SafeName(f.v.Class), gseed)
	p := filepath.Join(core.ReplayDir(), name)
	if err := core.WriteJSON(p, rf); err != nil {
		core.Fatal2("write replay: %v", err)
	}
	return p
}

func sameRun(a, b *Outcome) string {
	if strings.Join(a.Log, "\n") != strings.Join(b.Log, "\n") {
		return "event logs differ"
	}
	if a.OK != b.OK || a.Err != b.Err || a.JSON != b.JSON || a.Text != b.Text || a.Panic != "" != (b.Panic != "") {
		return "outcomes differ"
	}
	return ""
}

// stallState is what the watchdog needs to turn a CPU loop inside the compiler into a
// reported violation: the workload being executed and the partial gathered so far.
var stallState struct {
	mu   sync.Mutex
	w    *Workload
	seed uint64
	part *core.Partial
	cfg  core.Cfg
}

func onStall(stacks string) bool {
	stuck, frames := core.StuckInSUT(stacks)
	if !stuck {
		return false
	}
	stallState.mu.Lock()
	defer stallState.mu.Unlock()
	if stallState.w == nil || stallState.part == nil {
		return false
	}
	c := stallState.cfg
	v := Violation{Class: "hang", Detail: "the compile keeps a CPU busy without reaching any seam (retry loop?) after the scheduler stopped releasing events: " + core.Trunc(frames, 900)}
	p := writeReplay(c, found{v: v, w: stallState.w, o: &Outcome{}}, c.Property == "C06", stallState.seed)
	part := stallState.part
	part.Violations = append(part.Violations, core.ViolationRec{Class: v.Class, Detail: v.Detail, Replay: p, Seed: stallState.seed})
	_ = core.WriteJSON(c.PartPath(c.Worker), part)
	os.Exit(0)
	return true
}

func worker(t *testing.T, c core.Cfg) {
	start := time.Now()
	faulty := c.Property == "C06"
	waves := c.Mode == "race" // -race build: everything parked is released at once
	part := &core.Partial{Worker: c.Worker, Counters: core.Counters{}}
	stallState.mu.Lock()
	stallState.part, stallState.cfg = part, c
	stallState.mu.Unlock()
	nw := int(core.EnvInt("VERIF_WORKERS", 1))
	deadline := start.Add(time.Duration(c.BudgetS * float64(time.Second)))
	schedPerGraph := 8
	if c.Tier == "thorough" {
		schedPerGraph = 40
	}
	distinct := map[uint64]bool{}
	inter := map[uint64]bool{}
	maxViol := 6
	finished := false
	defer func() {
		if !finished { // ended by the testing package after a race report: keep what was gathered
			part.Counters.Inc("worker_ended_early_by_testing_package")
			finishWorker(c, part, distinct, inter, start)
		}
	}()
	selfcheck(t, c, part)
	maxCases := int(core.EnvInt("VERIF_MAX_CASES", 0)) // determinism self-test: a fixed set of graphs
	wantDigests := os.Getenv("VERIF_DIGESTS") != ""
	if wantDigests {
		part.Digests = map[string]uint64{}
	}
	for g := c.Worker; (maxCases > 0 && g < maxCases || maxCases == 0 && time.Now().Before(deadline)) && len(part.Violations) < maxViol; g += nw {
		gseed := core.Derive(c.Seed, c.Property, "graph", fmt.Sprint(g))
		ws := []*Workload{Gen(gseed, faulty)}
		if faulty && c.Tier == "thorough" && g%3 == 0 && len(ws[0].Files) <= 5 {
			// fault enumeration: every (file, certain kind) pair of a small graph
			ws = enumerateSingleFaults(gseed)
			part.Counters.Inc("graphs_with_exhaustive_single_fault_enumeration")
		}
		var digest []string
		for _, w := range ws {
			stallState.mu.Lock()
			stallState.w, stallState.seed = w, gseed
			stallState.mu.Unlock()
			e := Model(w)
			part.Cases++
			part.Counters.Inc("family_" + w.Family)
			part.Counters.Inc("template_" + w.Template)
			if w.MaxDepth > 0 {
				part.Counters.Inc("graphs_with_depth_limit")
			}
			staticProbes(w, e, part.Counters)
			shape := w.ShapeHash()
			var base *Outcome
			seenTrace := map[uint64]bool{}
			stale := 0
			classesSeen := map[string]bool{}
			nsched := schedPerGraph
			if len(ws) > 1 {
				nsched = 6
			}
			for si := 0; si < nsched && (si < 2 || maxCases > 0 || time.Now().Before(deadline)); si++ {
				var pk core.Picker
				pname := "baseline-first"
				if waves {
					pk, pname = core.Waves{}, "waves"
				} else if si == 0 {
					pk = core.First{}
				} else {
					pk, pname = choosePicker(core.Derive(gseed, "sched", fmt.Sprint(si)), w)
				}
				o := Execute(t, w, pk, maxSteps(w))
				part.Evaluations++
				part.Steps += int64(o.Steps)
				if wantDigests {
					digest = append(digest, pname, strings.Join(o.Log, "\n"), fmt.Sprint(o.OK), o.Err, o.JSON, o.Text, o.Panic)
				}
				part.Counters.Inc("policy_" + pname)
				part.Counters.Merge(prefix("fault_fired_", o.Fired))
				dynamicProbes(w, e, o, part.Counters)
				th := core.HashStrings(o.Picks...)
				if o.Choices >= 1 {
					distinct[core.Derive(shape, fmt.Sprint(th))] = true
				}
				inter[core.Derive(shape, fmt.Sprint(th))] = true
				if o.OK {
					part.Counters.Inc("outcome_ok")
				} else {
					part.Counters.Inc("outcome_error")
				}
				// determinism twin: every 16th run is re-executed from its own trace
				if part.Evaluations%16 == 1 && !waves {
					tw := Execute(t, w, &core.Trace{Keys: o.Picks}, maxSteps(w))
					if tw.Sched.Diverged != "" {
						part.HarnessErr = fmt.Sprintf("twin of graph %d schedule %d diverged: %s", g, si, tw.Sched.Diverged)
						finishWorker(c, part, distinct, inter, start)
						return
					}
					if d := sameRun(o, tw); d != "" {
						part.HarnessErr = fmt.Sprintf("twin of graph %d (seed %d) schedule %d not identical: %s", g, gseed, si, d)
						finishWorker(c, part, distinct, inter, start)
						return
					}
					part.Twins++
				}
				if len(part.Samples) < 1 && si == 3 {
					part.Samples = append(part.Samples, sampleOf(w, e, o, pname))
				}
				vs := Check(w, e, o, base, faulty)
				part.Counters.Merge(o.Probes)
				for _, v := range vs {
					key := v.Class + "|" + v.Sig
					if classesSeen[key] {
						continue
					}
					classesSeen[key] = true
					part.Counters.Inc("raw_violation_" + v.Class)
					var bp []string
					if base != nil && v.Class == "schedule-dependent" {
						bp = base.Picks
					}
					if waves {
						// parallel execution is not replayable; the observation stands on its own
						p := writeReplay(c, found{v: v, w: w, o: o}, faulty, gseed)
						part.Violations = append(part.Violations, core.ViolationRec{Class: v.Class, Sig: v.Sig,
							Detail: v.Detail + " [seen in a parallel wave run; replay by re-running the check with the same VERIF_SEED]", Replay: p, Seed: gseed})
						continue
					}
					// reproduce twice from the recorded trace before believing it
					ok1, _, _, _, d1 := reproduce(t, w, o.Picks, bp, v.Class, faulty, false)
					ok2, _, _, _, d2 := reproduce(t, w, o.Picks, bp, v.Class, faulty, false)
					if !ok1 || !ok2 {
						part.HarnessErr = fmt.Sprintf("violation %q of graph seed %d did not reproduce from its trace (%v %v %s %s): %s",
							v.Class, gseed, ok1, ok2, d1, d2, v.Detail)
						finishWorker(c, part, distinct, inter, start)
						return
					}
					f := found{v: v, w: w, picks: o.Picks, base: bp, o: o}
					f = minimise(t, f, faulty, 150)
					p := writeReplay(c, f, faulty, gseed)
					part.Violations = append(part.Violations, core.ViolationRec{Class: f.v.Class, Sig: f.v.Sig,
						Detail: f.v.Detail, Replay: p, Seed: gseed})
				}
				if si == 0 {
					base = o
				}
				if seenTrace[th] {
					stale++
				} else {
					seenTrace[th] = true
					stale = 0
				}
				// stop early when the schedule space of this graph looks exhausted
				if stale >= 3*len(seenTrace)+2 {
					break
				}
			}
		} // workloads of this graph
		if wantDigests {
			part.Digests[fmt.Sprint(g)] = core.HashStrings(digest...)
		}
	}
	finished = true
	finishWorker(c, part, distinct, inter, start)
}

// enumerateSingleFaults returns one workload per (file, applicable certain fault kind)
// of the fault-free graph with this seed.
func enumerateSingleFaults(gseed uint64) []*Workload {
	var out []*Workload
	base := Gen(gseed, false)
	for _, f := range base.Files {
		kinds := []string{"enoent", "eacces", "eio-open", "eio-read", "garbage-import", "garbage-body", "garbage-bracket", "bad-escape"}
		if f.Remote {
			kinds = []string{"retrieve-error", "garbage-import", "garbage-body", "garbage-bracket", "bad-escape"}
		} else if f.Kind != "sysl" {
			kinds = []string{"enoent", "eacces", "eio-open", "eio-read", "bad-foreign"}
		}
		for ki, k := range kinds {
			w := cloneWorkload(base)
			ft := Fault{File: f.ID, Kind: k, Certain: true, Param: ki}
			w.Faults = []Fault{ft}
			rebuild(w)
			out = append(out, w)
		}
	}
	return out
}

func prefix(p string, c core.Counters) core.Counters {
	out := core.Counters{}
	for k, v := range c {
		out[p+k] = v
	}
	return out
}

func finishWorker(c core.Cfg, part *core.Partial, distinct, inter map[uint64]bool, start time.Time) {
	for h := range distinct {
		part.Distinct = append(part.Distinct, h)
	}
	for h := range inter {
		part.Interleave = append(part.Interleave, h)
	}
	part.WallS = time.Since(start).Seconds()
	if err := core.WriteJSON(c.PartPath(c.Worker), part); err != nil {
		core.Fatal2("write partial: %v", err)
	}
}

func sampleOf(w *Workload, e *Expect, o *Outcome, policy string) json.RawMessage {
	type fileS struct {
		Path    string   `json:"path"`
		Imports []string `json:"imports,omitempty"`
	}
	var fsx []fileS
	for _, f := range w.Files {
		x := fileS{Path: f.Path}
		for _, im := range f.Imports {
			x.Imports = append(x.Imports, im.Spell)
		}
		fsx = append(fsx, x)
	}
	b, _ := json.Marshal(map[string]interface{}{
		"graph_seed": w.Seed, "family": w.Family, "template": w.Template, "max_depth": w.MaxDepth,
		"files": fsx, "faults": w.Faults, "policy": policy, "picks": o.Picks,
		"expected_order": e.OrderPath, "observed_order": o.Order, "ok": o.OK, "error": core.Trunc(o.Err, 200),
	})
	return b
}

// staticProbes counts shape features of the generated graph.
func staticProbes(w *Workload, e *Expect, c core.Counters) {
	dup, spell2, cyc, self, remoteRel := false, false, false, false, false
	incoming := map[int]map[string]bool{}
	for _, f := range w.Files {
		seen := map[int]bool{}
		for _, im := range f.Imports {
			if seen[im.To] {
				dup = true
			}
			seen[im.To] = true
			if im.To == f.ID {
				self = true
			}
			if incoming[im.To] == nil {
				incoming[im.To] = map[string]bool{}
			}
			incoming[im.To][im.Spell] = true
			if f.Remote && !strings.HasPrefix(im.Spell, "//") {
				remoteRel = true
			}
		}
	}
	for _, m := range incoming {
		if len(m) >= 2 {
			spell2 = true
		}
	}
	// cycle detection
	state := make([]int, len(w.Files))
	var dfs func(i int)
	dfs = func(i int) {
		state[i] = 1
		for _, im := range w.Files[i].Imports {
			if state[im.To] == 1 && im.To != i {
				cyc = true
			} else if state[im.To] == 0 {
				dfs(im.To)
			}
		}
		state[i] = 2
	}
	dfs(0)
	flag := func(b bool, k string) {
		if b {
			c.Inc(k)
		}
	}
	flag(dup, "probe_duplicate_import_line")
	flag(spell2, "probe_two_spellings_one_file")
	flag(cyc, "probe_cycle")
	flag(self, "probe_self_import")
	flag(remoteRel, "probe_remote_relative_import")
	flag(len(e.MultiPar) > 0, "probe_multi_parent_file")
	flag(e.Conflict, "probe_conflict_expected")
	flag(len(e.Divergent) > 0, "probe_divergent_definitions")
	for _, f := range w.Files {
		if f.Kind != "sysl" {
			c.Inc("probe_foreign_leaf_" + f.Kind)
		}
		if f.Remote {
			c.Inc("probe_remote_file")
		}
	}
}

// dynamicProbes counts rare conditions actually reached in one run.
func dynamicProbes(w *Workload, e *Expect, o *Outcome, c core.Counters) {
	opened := map[string]bool{}
	claimed := map[string]bool{}
	for _, l := range o.Log {
		switch {
		case strings.HasPrefix(l, "pick open /"):
			p := strings.TrimPrefix(l, "pick open /")
			opened[p[:strings.LastIndex(p, "#")]] = true
		case strings.HasPrefix(l, "note claimed new "):
			claimed[stripVersion(l[strings.LastIndex(l, " ")+1:])] = true
		case strings.HasPrefix(l, "note claimed seen "):
			x := stripVersion(l[strings.LastIndex(l, " ")+1:])
			if claimed[x] && !opened[x] && !strings.HasPrefix(x, "//") {
				c.Inc("probe_revisit_while_first_visit_unread")
			}
		}
	}
	if w.MaxDepth > 0 {
		for i := range w.Files {
			if e.Dist[i] < 0 {
				c.Inc("probe_depth_cut_taken")
				break
			}
		}
	}
	// faults delivered while siblings were in flight
	if len(w.Faults) > 0 {
		for i, k := range o.Picks {
			for _, ft := range w.Faults {
				if strings.Contains(k, w.Files[ft.File].Path) && (strings.HasPrefix(k, "open ") || strings.HasPrefix(k, "retrieve ")) &&
					i < len(o.Picks) && o.MaxParked >= 2 {
					c.Inc("probe_fault_with_siblings_in_flight")
				}
			}
		}
	}
	if o.Steps > 0 && o.Choices == 0 {
		c.Inc("runs_without_any_choice")
	}
}

// selfcheck runs the smallest cases first: one sound file must compile, and one file
// carrying each "certainly bad" content kind must fail.  On the unchanged tree this
// validates the harness's notion of "certainly bad"; a tree on which garbage compiles
// violates C06 outright, and the case is reported like any other run.
func selfcheck(t *testing.T, c core.Cfg, part *core.Partial) {
	for _, kind := range []string{"garbage-import", "garbage-body", "garbage-bracket", "bad-escape"} {
		w := &Workload{Family: "plain", Template: "selfcheck", Files: []*FileSpec{{ID: 0, Path: "f0.sysl", Kind: "sysl"}}}
		w.Files[0].Text = render(w, w.Files[0])
		ft := Fault{File: 0, Kind: kind, Certain: true}
		applyContentFault(w.Files[0], &ft)
		w.Faults = []Fault{ft}
		o := Execute(t, w, core.First{}, 100)
		for _, v := range Check(w, Model(w), o, nil, true) {
			if c.Property == "C06" && c.Worker == 0 {
				p := writeReplay(c, found{v: v, w: w, picks: o.Picks, o: o}, true, 0)
				part.Violations = append(part.Violations, core.ViolationRec{Class: v.Class, Detail: v.Detail, Replay: p})
			}
		}
	}
	if c.Property == "C06" && c.Mode != "race" && (c.Worker == 1 || c.Worker == 2) {
		// a large foreign document that its importer rejects: the arr.ai importers quote the
		// whole input and a trace in their error (several KB); the failing file must still
		// be named.  Once per run (a conversion takes seconds).
		var doc strings.Builder
		doc.WriteString("openapi: \"3.0.0\"\ninfo:\n  title: Orders\n  version: \"1.0\"\npaths:\n")
		for i := 0; i < 40+10*c.Worker; i++ {
			fmt.Fprintf(&doc, "  /orders/region%03d:\n    get:\n      responses:\n        200:\n          description: \"the orders of region %03d\"\n", i, i)
		}
		text := doc.String()
		if c.Worker == 1 {
			text = text[:len(text)-5] // ends inside a quoted string, as a cut-off download would
		} else {
			text = strings.Replace(text, "paths:\n", "paths: 7\nx-paths:\n", 1)
		}
		w := &Workload{Family: "plain", Template: "selfcheck-big-foreign", Files: []*FileSpec{
			{ID: 0, Path: "f0.sysl", Kind: "sysl", Imports: []ImportSpec{{To: 1, Spell: "apis/f1.yaml", As: foreignAs(1)}, {To: 2, Spell: "f2"}}},
			{ID: 1, Path: "apis/f1.yaml", Kind: "openapi3"},
			{ID: 2, Path: "f2.sysl", Kind: "sysl"}}}
		for _, f := range w.Files {
			f.Text = render(w, f)
		}
		w.Files[1].Text = text
		w.Faults = []Fault{{File: 1, Kind: "bad-foreign", Certain: true}}
		o := Execute(t, w, core.First{}, 100000)
		part.Counters.Inc("selfcheck_large_rejected_foreign_document")
		part.Counters.Inc("fault_bad-foreign")
		for _, v := range Check(w, Model(w), o, nil, true) {
			p := writeReplay(c, found{v: v, w: w, picks: o.Picks, o: o}, true, 0)
			part.Violations = append(part.Violations, core.ViolationRec{Class: v.Class, Detail: v.Detail, Replay: p})
		}
	}
	if c.Property == "C06" && c.Mode != "race" && c.Worker == 6%int(core.EnvInt("VERIF_WORKERS", 1)) {
		// a foreign import without "as": the importer cannot be set up without an application
		// name - the compile must fail and say which import that was
		for k, path := range []string{"f1.yaml", "apis/f1.json"} {
			w := &Workload{Family: "plain", Template: fmt.Sprintf("selfcheck-foreign-without-as-%d", k), Files: []*FileSpec{
				{ID: 0, Path: "f0.sysl", Kind: "sysl", Imports: []ImportSpec{{To: 2, Spell: "f2"}, {To: 1, Spell: path}}},
				{ID: 1, Path: path, Kind: "swagger"},
				{ID: 2, Path: "f2.sysl", Kind: "sysl"}}}
			for _, f := range w.Files {
				f.Text = render(w, f)
			}
			w.Faults = []Fault{{File: 1, Kind: "bad-foreign", Certain: true}} // "bad" here: unusable as imported
			o := Execute(t, w, core.First{}, 100000)
			part.Counters.Inc("selfcheck_foreign_import_without_as")
			for _, v := range Check(w, Model(w), o, nil, true) {
				p := writeReplay(c, found{v: v, w: w, picks: o.Picks, o: o}, true, 0)
				part.Violations = append(part.Violations, core.ViolationRec{Class: v.Class, Detail: v.Detail, Replay: p})
				break
			}
		}
	}
	if c.Property == "C06" && c.Mode != "race" && c.Worker == 5%int(core.EnvInt("VERIF_WORKERS", 1)) {
		// foreign files cut down to nothing, or to white space: no format can be detected
		k := 0
		for _, path := range []string{"f1.yaml", "f1.json", "f1.proto", "f1.dat", "f1.yml", "f1.yaml ~swagger", "f1.json ~swagger", "f1.yaml ~openapi3"} {
			// (with a mode hint after the name: the hint says what the author expects, not what the file is)
			mode := ""
			if i := strings.Index(path, " ~"); i >= 0 {
				path, mode = path[:i], path[i+2:]
			}
			texts := []string{"", "\n\n  \n", " "}
			if mode != "" {
				texts = append(texts, "foo: bar\n", "{}\n", "{\"a\": {\"b\": 1}}\n")
			}
			for _, text := range texts {
				k++
				w := &Workload{Family: "plain", Template: fmt.Sprintf("selfcheck-blank-foreign-%d", k), Files: []*FileSpec{
					{ID: 0, Path: "f0.sysl", Kind: "sysl", Imports: []ImportSpec{{To: 1, Spell: path, As: foreignAs(1), Mode: mode}, {To: 2, Spell: "f2"}}},
					{ID: 1, Path: path, Kind: "dat"},
					{ID: 2, Path: "f2.sysl", Kind: "sysl"}}}
				for _, f := range w.Files {
					f.Text = render(w, f)
				}
				w.Files[1].Text = text
				w.Faults = []Fault{{File: 1, Kind: "undetectable-format", Certain: true}}
				o := Execute(t, w, core.First{}, 100000)
				part.Counters.Inc("selfcheck_blank_foreign_file")
				for _, v := range Check(w, Model(w), o, nil, true) {
					p := writeReplay(c, found{v: v, w: w, picks: o.Picks, o: o}, true, 0)
					part.Violations = append(part.Violations, core.ViolationRec{Class: v.Class, Detail: v.Detail, Replay: p})
					break
				}
				if len(part.Violations) > 0 {
					break
				}
			}
		}
	}
	if c.Property == "C06" && c.Mode != "race" && c.Worker == 4%int(core.EnvInt("VERIF_WORKERS", 1)) {
		// compiled-model imports that are well-formed JSON / text-proto of some other schema:
		// every variant once per run (the random plans reach them only a few dozen times)
		for k, v := range []struct {
			kind, path string
			param      int
		}{
			{"pbjson", "f1.pb.json", 1}, {"pbjson", "f1.pb.json", 2}, {"textpb", "f1.textpb", 1}, {"pbjson", "f1.pb.json", 0}, {"textpb", "f1.textpb", 0},
		} {
			w := &Workload{Family: "plain", Template: fmt.Sprintf("selfcheck-foreign-schema-%d", k), Files: []*FileSpec{
				{ID: 0, Path: "f0.sysl", Kind: "sysl", Imports: []ImportSpec{{To: 1, Spell: v.path, As: foreignAs(1)}, {To: 2, Spell: "f2"}}},
				{ID: 1, Path: v.path, Kind: v.kind},
				{ID: 2, Path: "f2.sysl", Kind: "sysl"}}}
			for _, f := range w.Files {
				f.Text = render(w, f)
			}
			ft := Fault{File: 1, Kind: "bad-foreign", Certain: true, Param: v.param}
			applyContentFault(w.Files[1], &ft)
			w.Faults = []Fault{ft}
			o := Execute(t, w, core.First{}, 100000)
			part.Counters.Inc("selfcheck_well_formed_document_of_another_schema")
			part.Counters.Inc("fault_bad-foreign")
			for _, v := range Check(w, Model(w), o, nil, true) {
				p := writeReplay(c, found{v: v, w: w, picks: o.Picks, o: o}, true, 0)
				part.Violations = append(part.Violations, core.ViolationRec{Class: v.Class, Detail: v.Detail, Replay: p})
				break
			}
		}
	}
	if c.Property == "C06" && c.Mode != "race" && c.Worker == 3%int(core.EnvInt("VERIF_WORKERS", 1)) {
		// Swagger 2.0 documents cut off after a mapping key (a null value where the converter
		// expects an object), and an array definition without items: rejected documents, which
		// must fail the compile with an error that names them
		hdr := "swagger: \"2.0\"\ninfo:\n  title: x\n  version: v\n"
		for k, tail := range []string{
			"paths:\n  /a:\n",
			"paths:\n  /a:\n    get:\n      responses:\n        200:\n",
			"paths:\n  /a:\n    get:\n      parameters:\n        -\n      responses:\n        200:\n          description: ok\n",
			"paths: {}\ndefinitions:\n  A:\n",
			"paths: {}\ndefinitions:\n  A:\n    type: object\n    properties:\n      x:\n",
			"paths: {}\ndefinitions:\n  A:\n    allOf:\n      -\n",
			"paths: {}\ndefinitions:\n  A:\n    type: array\n",
		} {
			w := &Workload{Family: "plain", Template: fmt.Sprintf("selfcheck-cut-swagger-%d", k), Files: []*FileSpec{
				{ID: 0, Path: "f0.sysl", Kind: "sysl", Imports: []ImportSpec{{To: 1, Spell: "f1.yaml", As: foreignAs(1)}, {To: 2, Spell: "f2"}}},
				{ID: 1, Path: "f1.yaml", Kind: "swagger"},
				{ID: 2, Path: "f2.sysl", Kind: "sysl"}}}
			for _, f := range w.Files {
				f.Text = render(w, f)
			}
			w.Files[1].Text = hdr + tail
			w.Faults = []Fault{{File: 1, Kind: "bad-foreign", Certain: true}}
			o := Execute(t, w, core.First{}, 100000)
			part.Counters.Inc("selfcheck_cut_off_swagger_document")
			part.Counters.Inc("fault_bad-foreign")
			for _, v := range Check(w, Model(w), o, nil, true) {
				p := writeReplay(c, found{v: v, w: w, picks: o.Picks, o: o}, true, 0)
				part.Violations = append(part.Violations, core.ViolationRec{Class: v.Class, Detail: v.Detail, Replay: p})
				break
			}
		}
	}
	w := &Workload{Family: "plain", Template: "selfcheck", Files: []*FileSpec{{ID: 0, Path: "f0.sysl", Kind: "sysl"}}}
	w.Files[0].Text = render(w, w.Files[0])
	o := Execute(t, w, core.First{}, 100)
	for _, v := range Check(w, Model(w), o, nil, false) {
		if c.Worker == 0 {
			p := writeReplay(c, found{v: v, w: w, picks: o.Picks, o: o}, false, 0)
			part.Violations = append(part.Violations, core.ViolationRec{Class: v.Class, Detail: v.Detail, Replay: p})
		}
	}
}

func TestEngine(t *testing.T) {
	c := core.LoadCfg()
	if c.Property != "C05" && c.Property != "C06" {
		core.Fatal2("importsim serves C05 and C06, not %q", c.Property)
	}
	if c.Replay != "" {
		core.StartWatchdog(120*time.Second, nil)
		os.Exit(replay(t, c))
	}
	if c.Worker >= 0 {
		core.QuietStderr()
		core.StartWatchdog(120*time.Second, onStall)
		worker(t, c)
		return
	}
	start := time.Now()
	gmp := []int{1, 4, 16}
	if os.Getenv("VERIF_GOMAXPROCS_ROT") != "" { // determinism self-test: another assignment of GOMAXPROCS to workers
		gmp = []int{16, 1, 4, 2}
	}
	// a few workers run the -race build with everything parked released at once (waves)
	nrace := 0
	var rparts []*core.Partial
	rdone := make(chan struct{})
	if rb := os.Getenv("VERIF_BIN_RACE"); rb != "" && os.Getenv("VERIF_DIGESTS") == "" {
		nrace = 3
		rc := c
		rc.Mode, rc.Bin = "race", rb
		go func() {
			rparts = core.SpawnWorkers(rc, nrace, func(i int) []string {
				return []string{fmt.Sprintf("GORACE=halt_on_error=0 log_path=%s/race-%d", c.OutDir, i)}
			}, func(i int) int { return []int{4, 16, 8}[i%3] })
			close(rdone)
		}()
	} else {
		close(rdone)
	}
	// driver "cli" (C05): the closure through the whole command line, where --max-import-depth
	// and --no-different-version-check have to reach the parser of the run
	ncli := 0
	var cparts []*core.Partial
	cdone := make(chan struct{})
	if ob := os.Getenv("VERIF_BIN_ORDER"); ob != "" && c.Property == "C05" && os.Getenv("VERIF_DIGESTS") == "" {
		ncli = 2
		cc := c
		cc.Mode, cc.Bin = "cli", ob
		go func() {
			cparts = core.SpawnWorkers(cc, ncli, nil, func(i int) int { return []int{1, 4}[i%2] })
			close(cdone)
		}()
	} else {
		close(cdone)
	}
	parts := core.SpawnWorkers(c, c.Workers-nrace-ncli, nil, func(i int) int { return gmp[i%len(gmp)] })
	<-rdone
	<-cdone
	core.DumpDigests(parts)
	parts = append(parts, rparts...)
	parts = append(parts, cparts...)
	m := core.Merge(parts)
	races := 0
	if logs, _ := filepath.Glob(filepath.Join(c.OutDir, "race-*")); len(logs) > 0 {
		for _, lf := range logs {
			b, err := os.ReadFile(lf)
			if err != nil || !strings.Contains(string(b), "WARNING: DATA RACE") {
				continue
			}
			n := strings.Count(string(b), "WARNING: DATA RACE")
			if races == 0 {
				p := filepath.Join(core.ReplayDir(), fmt.Sprintf("%s-race-report-%d.txt", c.Property, c.Seed))
				_ = os.WriteFile(p, b, 0o644)
				m.Violations = append(m.Violations, core.ViolationRec{Class: "data-race", Replay: p,
					Detail: fmt.Sprintf("%d race report(s) while the retrievals of a level ran in parallel; first: %s", n, core.OneLine(core.Trunc(string(b), 900)))})
			}
			races += n
		}
	}
	level := "exploration"
	rule := "one evaluation = one execution of the real parse.Parser.Parse on a generated import graph under one seeded schedule; " +
		"a run is non-trivial if at some step >= 2 events (claims, opens, retrievals, conversions) were parked so the scheduler had a choice; " +
		"distinct = distinct (graph shape, pick trace) hashes among non-trivial runs"
	if c.Property == "C06" {
		level = "fault_enumeration"
		rule += "; every C06 graph carries 1-3 injected faults (read errors, retriever errors, garbage, truncation, flips)"
	}
	extra := map[string]interface{}{
		"simulated_time":    "logical scheduler steps only (the anchored code has no clock)",
		"components_real":   []string{"parse.Parser.Parse incl. collectSpecs/parseSpecs/flattenSpecs", "ANTLR lexer+parser", "golden-retriever remotefs+filesystem", "importers", "pbutil encoders"},
		"components_stub":   []string{"disk (SimFs)", "git retriever (simRetriever)", "logrus exit function"},
		"worker_processes":  c.Workers,
		"gomaxprocs":        []int{1, 4, 16},
		"race_wave_workers": nrace,
		"race_reports":      races,
	}
	code := core.Finish(c, level, m, rule, extra, []string{
		"between two scheduler picks exactly one goroutine of the compile runs (cooperative scheduling at claim/open/retrieve/convert seams)",
		"the reference closure model and the generator share the spelling rules of import paths",
	}, start)
	os.Exit(code)
}

func replay(t *testing.T, c core.Cfg) int {
	var rf ReplayFile
	if err := core.ReadJSON(c.Replay, &rf); err != nil {
		core.Fatal2("replay file: %v", err)
	}
	ok, o, _, _, div := reproduce(t, rf.Workload, rf.Picks, rf.Base, rf.Class, rf.Faulty, false)
	if div != "" {
		core.Fatal2("replay diverged: %s", div)
	}
	if !ok {
		fmt.Printf("replay: class %q did not recur (ok=%v err=%s)\n", rf.Class, o.OK, core.Trunc(o.Err, 300))
		return 0
	}
	fmt.Printf("VIOLATION property=%s replay=%s\n  detail: [%s] %s\n", rf.Property, c.Replay, rf.Class, core.OneLine(core.Trunc(rf.Detail, 600)))
	return 1
}
