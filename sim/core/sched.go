package core

import (
	"fmt"
	"runtime"
	"sort"
	"strings"
	"sync"
	"sync/atomic"
	"testing"
	"testing/synctest"
	"time"
	"unsafe"
)

// Parked is one goroutine blocked at a seam point, waiting for the scheduler.
type Parked struct {
	Key   string // canonical, unique among simultaneously parked events
	Point string
	Base  string // key without the occurrence ordinal
	Task  string // label of the goroutine that parked
	Born  int    // scheduler step at which the driver first saw it
	ch    chan struct{}
}

type taskLabel struct{ name string }

// label pins (so the GC never frees a label still referenced only from a g)
var (
	labelMu   sync.Mutex
	labelPins []*taskLabel
)

// SetTask labels the calling goroutine; goroutines started from it inherit the label.
func SetTask(name string) {
	l := &taskLabel{name}
	labelMu.Lock()
	labelPins = append(labelPins, l)
	labelMu.Unlock()
	runtime.VerifSetTask(unsafe.Pointer(l))
}

// ClearTask removes the label of the calling goroutine.
func ClearTask() { runtime.VerifSetTask(nil) }

// ResetLabelPins drops the pins; call between runs when no labelled goroutine is left.
func ResetLabelPins() {
	labelMu.Lock()
	labelPins = nil
	labelMu.Unlock()
}

// Task returns the label of the calling goroutine ("" if none).
func Task() string {
	p := runtime.VerifTask()
	if p == nil {
		return ""
	}
	return (*taskLabel)(p).name
}

// Picker decides which parked event proceeds.  Returning -1 releases all of them at
// once (wave mode).  An error aborts the run as "replay diverged".
type Picker interface {
	Pick(step int, parked []*Parked) (int, error)
}

// Heartbeat is bumped at every scheduler step; the wall-clock watchdog reads it.
var Heartbeat atomic.Uint64

// DrainingSince is non-zero while a run that exceeded its step bound is
// being drained: the root is expected to return at once; if it keeps running, the
// watchdog need not wait for its full limit.
var DrainingSince atomic.Int64

// Sched is the cooperative scheduler of one run.
type Sched struct {
	mu      sync.Mutex
	parked  map[string]*Parked
	occ     map[string]int
	active  bool
	drain   bool
	enabled map[string]bool // seam points that park
	refine  map[string]bool // seam points that refine the goroutine label

	Log        []string // picks and notes, in order
	Picks      []string // picked keys only
	PickWidth  []int    // number of parked events at each pick
	Steps      int
	Choices    int // steps at which >= 2 events were parked
	MaxParked  int
	Waves      int
	Stragglers []string
	Notes      int

	// ClockJumpEvery > 0: after every so many steps the simulated clock jumps forward by
	// ClockJump (the driver sleeps inside the bubble while everything else is parked; costs
	// no real time).  Code that reads the clock for a budget or a deadline sees the jump.
	ClockJumpEvery int
	ClockJump      time.Duration
	ClockJumps     int
}

func NewSched(points ...string) *Sched {
	s := &Sched{parked: map[string]*Parked{}, occ: map[string]int{},
		enabled: map[string]bool{}, refine: map[string]bool{}}
	for _, p := range points {
		s.enabled[p] = true
	}
	return s
}

// RefineAt makes goroutines passing the given points take "<task>/<event>" as label.
func (s *Sched) RefineAt(points ...string) {
	for _, p := range points {
		s.refine[p] = true
	}
}

// Park is what a seam calls.  It blocks the calling goroutine (with no lock held) until
// the driver releases it.  Returns the canonical key of the event ("" if not parked).
func (s *Sched) Park(point, key string) string {
	s.mu.Lock()
	if !s.active || s.drain || !s.enabled[point] {
		s.mu.Unlock()
		return ""
	}
	task := Task()
	base := point + " " + key
	if task != "" {
		base = task + "|" + base
	}
	n := s.occ[base]
	s.occ[base] = n + 1
	full := fmt.Sprintf("%s#%d", base, n)
	ev := &Parked{Key: full, Point: point, Base: base, Task: task, Born: -1, ch: make(chan struct{})}
	s.parked[full] = ev
	s.mu.Unlock()
	if s.refine[point] {
		SetTask(full)
	}
	<-ev.ch
	return full
}

// Note records an event without blocking.
func (s *Sched) Note(point, key string) {
	s.mu.Lock()
	if s.active {
		s.Log = append(s.Log, "note "+point+" "+key)
		s.Notes++
	}
	s.mu.Unlock()
}

func (s *Sched) snapshot(step int) []*Parked {
	s.mu.Lock()
	out := make([]*Parked, 0, len(s.parked))
	for _, p := range s.parked {
		if p.Born < 0 {
			p.Born = step
		}
		out = append(out, p)
	}
	s.mu.Unlock()
	sort.Slice(out, func(i, j int) bool { return out[i].Key < out[j].Key })
	return out
}

func (s *Sched) release(p *Parked) {
	s.mu.Lock()
	delete(s.parked, p.Key)
	s.mu.Unlock()
	close(p.ch)
}

// RunResult is what the scheduler itself observed.
type RunResult struct {
	Deadlock    bool   // root not finished, nothing parked, everything blocked
	StepLimit   bool   // exceeded maxSteps
	Diverged    string // replay could not be followed
	BubblePanic string // end-of-bubble panic text (stragglers that never finish)
}

// Run executes root inside a synctest bubble under the given picker.
// root must recover its own panics.
func (s *Sched) Run(t *testing.T, root func(), picker Picker, maxSteps int) (res RunResult) {
	defer func() {
		if r := recover(); r != nil {
			res.BubblePanic = fmt.Sprint(r)
		}
		s.mu.Lock()
		s.active = false
		s.mu.Unlock()
		DrainingSince.Store(0)
	}()
	synctest.Test(t, func(t *testing.T) {
		s.mu.Lock()
		s.active = true
		s.mu.Unlock()
		done := make(chan struct{})
		go func() {
			defer close(done)
			root()
		}()
		rootDone := false
		for {
			synctest.Wait()
			Heartbeat.Add(1)
			if !rootDone {
				select {
				case <-done:
					rootDone = true
				default:
				}
			}
			parked := s.snapshot(s.Steps)
			if rootDone {
				if len(parked) == 0 {
					return
				}
				for _, p := range parked {
					s.Stragglers = append(s.Stragglers, p.Key)
				}
				s.mu.Lock()
				s.drain = true
				s.mu.Unlock()
				for _, p := range parked {
					s.release(p)
				}
				continue
			}
			if len(parked) == 0 {
				res.Deadlock = true
				return
			}
			if s.Steps >= maxSteps {
				res.StepLimit = true
				DrainingSince.Store(1) // a flag: time inside the bubble is fake; the watchdog stamps it
				s.mu.Lock()
				s.drain = true
				s.mu.Unlock()
				for _, p := range parked {
					s.release(p)
				}
				// let the root finish unscheduled; its result is discarded
				<-done
				rootDone = true
				continue
			}
			if len(parked) > s.MaxParked {
				s.MaxParked = len(parked)
			}
			if len(parked) >= 2 {
				s.Choices++
			}
			idx, err := picker.Pick(s.Steps, parked)
			if err != nil {
				res.Diverged = err.Error()
				s.mu.Lock()
				s.drain = true
				s.mu.Unlock()
				for _, p := range parked {
					s.release(p)
				}
				<-done
				rootDone = true
				continue
			}
			s.Steps++
			if s.ClockJumpEvery > 0 && s.Steps%s.ClockJumpEvery == 0 {
				time.Sleep(s.ClockJump)
				s.ClockJumps++
			}
			if idx < 0 {
				s.Waves++
				keys := make([]string, len(parked))
				for i, p := range parked {
					keys[i] = p.Key
				}
				s.mu.Lock()
				s.Log = append(s.Log, "wave "+strings.Join(keys, " ; "))
				s.mu.Unlock()
				for _, p := range parked {
					s.release(p)
				}
				continue
			}
			p := parked[idx]
			s.mu.Lock()
			s.Log = append(s.Log, "pick "+p.Key)
			s.Picks = append(s.Picks, p.Key)
			s.PickWidth = append(s.PickWidth, len(parked))
			s.mu.Unlock()
			s.release(p)
		}
	})
	return res
}

// ---- pickers ----------------------------------------------------------------

// Uniform picks uniformly at random.
type Uniform struct{ R *Rand }

func (u Uniform) Pick(_ int, p []*Parked) (int, error) { return u.R.Intn(len(p)), nil }

// First always picks the canonically first key (the baseline schedule).
type First struct{}

func (First) Pick(_ int, p []*Parked) (int, error) { return 0, nil }

// ByAge picks the newest (or oldest) parked event, with probability Eps a random one.
type ByAge struct {
	R      *Rand
	Newest bool
	Eps    float64
}

func (b ByAge) Pick(_ int, p []*Parked) (int, error) {
	if b.Eps > 0 && b.R.Chance(b.Eps) {
		return b.R.Intn(len(p)), nil
	}
	best := 0
	for i := range p {
		if b.Newest && p[i].Born > p[best].Born || !b.Newest && p[i].Born < p[best].Born {
			best = i
		}
	}
	return best, nil
}

// Victim delays every event whose key contains one of the substrings until nothing
// else is parked.
type Victim struct {
	R       *Rand
	Victims []string
}

func (v Victim) Pick(_ int, p []*Parked) (int, error) {
	var ok []int
	for i := range p {
		hit := false
		for _, s := range v.Victims {
			if strings.Contains(p[i].Key, s) {
				hit = true
				break
			}
		}
		if !hit {
			ok = append(ok, i)
		}
	}
	if len(ok) == 0 {
		return v.R.Intn(len(p)), nil
	}
	return ok[v.R.Intn(len(ok))], nil
}

// PCT gives every event a random priority (a hash of its key) and runs the highest;
// at D change points the pick is random instead.
type PCT struct {
	Seed    uint64
	Changes map[int]bool
	R       *Rand
}

func (c PCT) Pick(step int, p []*Parked) (int, error) {
	if c.Changes[step] {
		return c.R.Intn(len(p)), nil
	}
	best, bv := 0, uint64(0)
	for i := range p {
		v := Derive(c.Seed, p[i].Base)
		if i == 0 || v > bv {
			best, bv = i, v
		}
	}
	return best, nil
}

// Sticky stays on the task that ran last with probability Stay.
type Sticky struct {
	R    *Rand
	Stay float64
	last string
}

func (s *Sticky) Pick(_ int, p []*Parked) (int, error) {
	if s.last != "" && s.R.Chance(s.Stay) {
		for i := range p {
			if rootTask(p[i].Task) == s.last {
				return i, nil
			}
		}
	}
	i := s.R.Intn(len(p))
	s.last = rootTask(p[i].Task)
	return i, nil
}

func rootTask(t string) string {
	if i := strings.IndexAny(t, "|/"); i >= 0 {
		return t[:i]
	}
	return t
}

// Waves releases everything at once (race-detector mode).
type Waves struct{}

func (Waves) Pick(_ int, _ []*Parked) (int, error) { return -1, nil }

// Trace follows a recorded list of keys.  Strict: a key that is not parked is a
// divergence.  Tolerant (used while minimising): fall back to the canonical first.
type Trace struct {
	Keys     []string
	Tolerant bool
	pos      int
	Misses   int
}

func (tr *Trace) Pick(_ int, p []*Parked) (int, error) {
	if tr.pos < len(tr.Keys) {
		want := tr.Keys[tr.pos]
		tr.pos++
		for i := range p {
			if p[i].Key == want {
				return i, nil
			}
		}
		if !tr.Tolerant {
			have := make([]string, len(p))
			for i := range p {
				have[i] = p[i].Key
			}
			return 0, fmt.Errorf("replay diverged at pick %d: want %q, parked %q", tr.pos-1, want, have)
		}
		tr.Misses++
		return 0, nil
	}
	if !tr.Tolerant && len(p) > 1 {
		return 0, fmt.Errorf("replay diverged: trace exhausted with %d events parked", len(p))
	}
	return 0, nil
}
