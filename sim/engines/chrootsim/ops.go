// Package chrootsim places a simulated disk under the real syslutil.ChrootFs (and under
// the real loader and parser) and checks, at the disk, that no call ever names a path
// outside the project root — with injected disk errors (property C18).
package chrootsim

import (
	"errors"
	"fmt"
	"github.com/sirupsen/logrus"
	"io"
	"os"
	"path"
	"reflect"
	"sort"
	"strings"
	"syscall"
	"time"

	"github.com/spf13/afero"

	"github.com/anz-bank/sysl/pkg/syslutil"

	"verif/sim/core"
	"verif/sim/simfs"
)

// OpSpec is one generated wrapper call.
type OpSpec struct {
	Op    string `json:"op"`
	P1    string `json:"p1"`
	P2    string `json:"p2,omitempty"`
	Flag  int    `json:"flag,omitempty"`
	Data  string `json:"data,omitempty"`
	Fault string `json:"fault,omitempty"` // errno injected into the inner call, if one happens
}

// Case is one driver-1 workload.
type Case struct {
	Seed uint64 `json:"seed"`
	Root string `json:"root"`
	// RootSpell is how the root is written when the wrapper is made ("" = as Root): the same
	// directory with a trailing slash, dot segments, doubled slashes or a detour through ".."
	RootSpell string   `json:"root_spelling,omitempty"`
	Ops       []OpSpec `json:"ops"`
}

// SpellRoot returns an absolute, lexically unclean spelling of the clean absolute path root.
func SpellRoot(r *core.Rand, root string) string {
	segs := strings.Split(strings.Trim(root, "/"), "/")
	if root == "/" {
		return []string{"//", "/.", "/x/..", "/./"}[r.Intn(4)]
	}
	switch r.Intn(7) {
	case 0:
		return root + "/"
	case 1:
		return root + "/."
	case 2:
		return "/./" + strings.Join(segs, "/./")
	case 3:
		return "//" + strings.Join(segs, "//")
	case 4:
		return root + "/sub/.."
	case 5:
		return "/../" + strings.Join(segs, "/")
	}
	return "/other/../" + strings.Join(segs, "/")
}

var allOps = []string{"Create", "Mkdir", "MkdirAll", "Open", "OpenFile", "Remove", "RemoveAll", "Rename", "Stat", "Chmod", "Chown", "Chtimes", "ReadFile", "WriteFile", "Readdir"}
var roots = []string{"/", "/proj", "/a/b", "/a/b/c", "/my.proj/x y", "/a/b.c/d"}

// (a backslash is an ordinary character of a name here: `..\secret` is one segment, a file of
// that name inside the root; a wrapper that reads it as a separator has left the root)
var segAlphabet = []string{"", ".", "..", "..", "a", "b", "lib", "b.c", "x y", "..a", "a..", "proj", "etc", "secret", "f.sysl", "Proj", "A", "B", "My.Proj",
	`..\secret`, `a\..\..\secret\s.sysl`, `..\..\etc\e.sysl`}
var errnos = map[string]syscall.Errno{"ENOENT": syscall.ENOENT, "EACCES": syscall.EACCES, "EIO": syscall.EIO, "ENOSPC": syscall.ENOSPC}

// populate builds the same world on a disk: things inside the root and, around it,
// things an escape would find.
func populate(fs *simfs.Fs, root string) {
	in := func(p string) string { return path.Join(root, p) }
	fs.PutFile(in("f.sysl"), []byte("inside f"))
	fs.PutFile(in("a/f.sysl"), []byte("inside a/f"))
	fs.PutFile(in("lib/b.c/x y"), []byte("inside deep"))
	fs.PutDir(in("b"))
	fs.PutDir(in("lib/empty"))
	// outside
	fs.PutFile("/etc/passwd", []byte("root:x:0:0"))
	fs.PutFile("/secret/keep", []byte("secret"))
	fs.PutFile("/proj.txt", []byte("sibling file of /proj"))
	fs.PutFile("/projx/f.sysl", []byte("sibling dir sharing the prefix"))
	fs.PutFile("/a/f.sysl", []byte("outside when root is /a/b"))
	fs.PutFile("/a/bb/f.sysl", []byte("prefix sibling of /a/b"))
	fs.PutFile("/a/b/f.sysl.bak", []byte("inside /a/b, outside /a/b/c"))
	fs.PutFile("/my.proj/x yz/f", []byte("prefix sibling with a space"))
	// case variants of the roots: different directories on a case-sensitive disk
	fs.PutFile("/Proj/f.sysl", []byte("outside: /Proj is not /proj"))
	fs.PutFile("/A/b/f.sysl", []byte("outside: /A/b is not /a/b"))
	fs.PutFile("/a/B/c/f.sysl", []byte("outside: /a/B/c is not /a/b/c"))
	fs.PutFile("/My.Proj/x y/f.sysl", []byte("outside: case variant of /my.proj/x y"))
	fs.PutDir("/tmp")
}

func genPath(r *core.Rand) string {
	n := r.Intn(8)
	if r.Chance(0.05) {
		n = r.Range(8, 12)
	}
	segs := make([]string, n)
	for i := range segs {
		segs[i] = segAlphabet[r.Intn(len(segAlphabet))]
	}
	p := strings.Join(segs, "/")
	if r.Chance(0.4) {
		p = "/" + p
	}
	if r.Chance(0.15) {
		p += "/"
	}
	return p
}

// GenCase draws a driver-1 workload.
func GenCase(seed uint64) *Case {
	r := core.NewRand(seed)
	c := &Case{Seed: seed, Root: roots[r.Intn(len(roots))]}
	if r.Chance(0.25) {
		c.RootSpell = SpellRoot(r, c.Root)
	}
	n := r.Range(1, 30)
	faultRate := []float64{0, 0, 0.05, 0.2}[r.Intn(4)]
	var recent []string
	for i := 0; i < n; i++ {
		o := OpSpec{Op: allOps[r.Intn(len(allOps))]}
		if r.Chance(0.25) {
			o.Op = "Rename" // the two-path operation gets extra weight
		}
		pick := func() string {
			if len(recent) > 0 && r.Chance(0.3) {
				return recent[r.Intn(len(recent))] // revisit, possibly under the same spelling
			}
			p := genPath(r)
			recent = append(recent, p)
			return p
		}
		o.P1 = pick()
		if o.Op == "Rename" {
			o.P2 = pick()
		}
		if o.Op == "OpenFile" {
			o.Flag = []int{os.O_RDONLY, os.O_RDWR | os.O_CREATE, os.O_WRONLY | os.O_CREATE | os.O_TRUNC, os.O_WRONLY | os.O_APPEND, os.O_RDWR | os.O_CREATE | os.O_EXCL}[r.Intn(5)]
		}
		if o.Op == "WriteFile" || o.Op == "Create" {
			o.Data = fmt.Sprintf("data-%d-%d", seed%1000, i)
		}
		if r.Chance(faultRate) {
			o.Fault = []string{"ENOENT", "EACCES", "EIO", "ENOSPC"}[r.Intn(4)]
		}
		c.Ops = append(c.Ops, o)
	}
	return c
}

// resolve is the reference: lexical normalisation of root + "/" + p.
func resolve(root, p string) (string, bool) {
	full := path.Clean(root + "/" + p)
	if root == "/" {
		return full, true
	}
	return full, full == root || strings.HasPrefix(full, root+"/")
}

// result of applying one operation to a filesystem
type opResult struct {
	err  error
	data string
}

func errClass(err error) string {
	if err == nil {
		return "ok"
	}
	var en syscall.Errno
	if errors.As(err, &en) {
		return en.Error()
	}
	if errors.Is(err, os.ErrClosed) {
		return "closed"
	}
	return "error"
}

// apply runs one operation against any afero.Fs (the wrapper, or the shadow disk with
// already-resolved paths) and summarises what came back.
func apply(fs afero.Fs, o OpSpec, p1, p2 string) opResult {
	switch o.Op {
	case "Create":
		f, err := fs.Create(p1)
		if err != nil {
			return opResult{err: err}
		}
		_, err = f.WriteString(o.Data)
		f.Close()
		return opResult{err: err}
	case "Mkdir":
		return opResult{err: fs.Mkdir(p1, 0o755)}
	case "MkdirAll":
		return opResult{err: fs.MkdirAll(p1, 0o755)}
	case "Open", "ReadFile":
		f, err := fs.Open(p1)
		if err != nil {
			return opResult{err: err}
		}
		defer f.Close()
		b, err := io.ReadAll(f)
		if err != nil {
			return opResult{data: "unreadable:" + errClass(err)}
		}
		return opResult{data: string(b)}
	case "OpenFile":
		f, err := fs.OpenFile(p1, o.Flag, 0o644)
		if err != nil {
			return opResult{err: err}
		}
		defer f.Close()
		if o.Flag&(os.O_WRONLY|os.O_RDWR) != 0 {
			_, err = f.WriteString("w")
			return opResult{err: err}
		}
		b, err := io.ReadAll(f)
		if err != nil {
			return opResult{data: "unreadable:" + errClass(err)}
		}
		return opResult{data: string(b)}
	case "WriteFile":
		return opResult{err: afero.WriteFile(fs, p1, []byte(o.Data), 0o644)}
	case "Remove":
		return opResult{err: fs.Remove(p1)}
	case "RemoveAll":
		return opResult{err: fs.RemoveAll(p1)}
	case "Rename":
		return opResult{err: fs.Rename(p1, p2)}
	case "Stat":
		fi, err := fs.Stat(p1)
		if err != nil {
			return opResult{err: err}
		}
		return opResult{data: fmt.Sprintf("%s dir=%v size=%d", fi.Name(), fi.IsDir(), fi.Size())}
	case "Chmod":
		return opResult{err: fs.Chmod(p1, 0o600)}
	case "Chown":
		return opResult{err: fs.Chown(p1, 1, 1)}
	case "Chtimes":
		t := time.Unix(1000000000, 0)
		return opResult{err: fs.Chtimes(p1, t, t)}
	case "Readdir":
		f, err := fs.Open(p1)
		if err != nil {
			return opResult{err: err}
		}
		defer f.Close()
		names, err := f.Readdirnames(-1)
		if err != nil {
			return opResult{data: "noreaddir:" + errClass(err)}
		}
		sort.Strings(names)
		return opResult{data: strings.Join(names, "|")}
	}
	panic("unknown op " + o.Op)
}

// ReflectSweep calls every exported method of *ChrootFs that takes a path (string) as
// first argument — including ones this harness has never heard of (optional afero
// interfaces such as Lstater, or methods added later) — with escaping and non-escaping
// names, and checks the one thing that must hold for any of them: nothing reaches the
// disk with a path outside the root.
func ReflectSweep(cnt core.Counters) []V {
	var vs []V
	names := []string{"../x", "/../x", "a/../../x", "..", "./../secret/keep", "../proj.txt", "../projx/f.sysl", "f.sysl", "", "."}
	for _, root := range roots {
		if root == "/" {
			continue
		}
		disk := simfs.New()
		populate(disk, root)
		escape := ""
		disk.Hook = func(op string, paths []string) error {
			for _, p := range paths {
				cl := disk.Abs(p)
				if !(cl == root || strings.HasPrefix(cl, root+"/")) && escape == "" {
					escape = fmt.Sprintf("%s(%q) reached the disk, outside root %q", op, paths, root)
				}
			}
			return nil
		}
		chroot := syslutil.NewChrootFs(disk, root)
		rv := reflect.ValueOf(chroot)
		rt := rv.Type()
		for i := 0; i < rt.NumMethod(); i++ {
			m := rt.Method(i)
			ft := m.Type // receiver is argument 0
			if ft.NumIn() < 2 || ft.In(1).Kind() != reflect.String || ft.IsVariadic() {
				continue
			}
			for _, name := range names {
				for pos := 1; pos < ft.NumIn(); pos++ { // every string parameter takes the hostile name in turn
					if ft.In(pos).Kind() != reflect.String {
						continue
					}
					args := []reflect.Value{}
					for k := 1; k < ft.NumIn(); k++ {
						switch {
						case k == pos:
							args = append(args, reflect.ValueOf(name))
						case ft.In(k).Kind() == reflect.String:
							args = append(args, reflect.ValueOf("f.sysl"))
						default:
							args = append(args, reflect.Zero(ft.In(k)))
						}
					}
					escape = ""
					func() {
						defer func() { _ = recover() }()
						rv.Method(i).Call(args)
					}()
					cnt.Inc("reflect_calls")
					cnt.Inc("reflect_method_" + m.Name)
					if escape != "" {
						vs = append(vs, V{Class: "escape", Detail: fmt.Sprintf("ChrootFs.%s(%q as argument %d): %s", m.Name, name, pos, escape)})
					}
				}
			}
		}
	}
	return vs
}

// firstInner names the first inner call an operation makes (the one a fault hits).
func firstInner(op string) string {
	switch op {
	case "Create", "WriteFile":
		return "OpenFile"
	case "ReadFile", "Readdir":
		return "Open"
	}
	return op
}

// V is a violation found by driver 1.
type V struct {
	Class  string `json:"class"`
	Detail string `json:"detail"`
	Step   int    `json:"step"`
	Sig    string `json:"sig,omitempty"` // history signature for the known-findings lookup
}

// RunCase executes a case against the real ChrootFs over a recording disk, and against
// the reference (resolve + the same operation on a shadow disk).  Returns violations and
// counters.
func RunCase(c *Case, cnt core.Counters) []V {
	var vs []V
	disk, shadow := simfs.New(), simfs.New()
	populate(disk, c.Root)
	populate(shadow, c.Root)
	shadow.Record = false
	if c.Seed%4 == 1 {
		// at debug log level (sysl -v): diagnostics must not look at what they report on
		old := logrus.GetLevel()
		logrus.SetLevel(logrus.DebugLevel)
		defer logrus.SetLevel(old)
		cnt.Inc("cases_at_debug_log_level")
	}
	rootArg := c.Root
	if c.RootSpell != "" {
		rootArg = c.RootSpell
		cnt.Inc("cases_with_unclean_root_spelling")
	}
	chroot := syslutil.NewChrootFs(disk, rootArg)

	var curFault syscall.Errno
	var faultUsed bool
	curPrimary := "" // the inner operation a fault is aimed at (extra, harmless inner calls are not hit)
	step := 0
	escape := ""
	disk.Hook = func(op string, paths []string) error {
		if op == "Write" {
			return nil
		}
		for _, p := range paths {
			cl := path.Clean(p)
			if !strings.HasPrefix(p, "/") {
				cl = path.Clean("/" + p)
			}
			if !(c.Root == "/" || cl == c.Root || strings.HasPrefix(cl, c.Root+"/")) && escape == "" {
				escape = fmt.Sprintf("%s(%q) reached the disk with %q, outside root %q", op, paths, p, c.Root)
			}
		}
		if curFault != 0 && !faultUsed && op == curPrimary {
			faultUsed = true
			return curFault
		}
		return nil
	}
	shadowFault := syscall.Errno(0)
	shadowUsed := false
	shadow.Hook = func(op string, paths []string) error {
		if op == "Write" {
			return nil
		}
		if shadowFault != 0 && !shadowUsed && op == curPrimary {
			shadowUsed = true
			return shadowFault
		}
		return nil
	}

	for i, o := range c.Ops {
		step = i
		r1, in1 := resolve(c.Root, o.P1)
		r2, in2 := "", true
		if o.Op == "Rename" {
			r2, in2 = resolve(c.Root, o.P2)
		}
		inside := in1 && in2
		curFault, faultUsed = 0, false
		shadowFault, shadowUsed = 0, false
		curPrimary = firstInner(o.Op)
		if o.Fault != "" {
			curFault = errnos[o.Fault]
			shadowFault = curFault
		}
		before := len(disk.OpsCopy())
		escape = ""
		got := apply(chroot, o, o.P1, o.P2)
		inner := disk.OpsCopy()[before:]
		var innerNW []simfs.Op
		for _, x := range inner {
			if x.Name != "Write" {
				innerNW = append(innerNW, x)
			}
		}
		cnt.Inc("op_" + o.Op)
		if escape != "" {
			vs = append(vs, V{Class: "escape", Detail: escape, Step: step})
			cnt.Inc("escapes")
		}
		if !inside {
			cnt.Inc("class_outside_" + o.Op)
			if o.Op == "Rename" && in1 && !in2 {
				cnt.Inc("probe_rename_target_outside")
			}
			if got.err == nil {
				vs = append(vs, V{Class: "not-refused", Detail: fmt.Sprintf("%s(%q,%q) with root %q succeeded although it resolves outside (%s %s)", o.Op, o.P1, o.P2, c.Root, r1, r2), Step: step})
			}
			if len(innerNW) > 0 {
				// an inner call on a refused operation is harmless as long as it stays inside
				// the root (the invariant above); it is only counted
				cnt.Inc("probe_inner_call_on_refused_operation")
			}
			cnt.Inc("refused")
			continue
		}
		cnt.Inc("class_inside_" + o.Op)
		if r1 == c.Root {
			cnt.Inc("probe_path_is_exactly_root")
		}
		if c.Root == "/" {
			cnt.Inc("probe_root_is_slash")
		}
		// reference: same operation on the shadow disk with resolved paths
		want := apply(shadow, o, r1, r2)
		if o.Fault != "" && faultUsed {
			cnt.Inc("fault_fired_" + o.Fault)
		}
		if len(innerNW) != 1 || innerNW[0].Name != firstInner(o.Op) {
			// more, fewer or different inner calls than the reference makes are not a
			// violation by themselves (the statement is about where calls go and what
			// comes back); counted as a probe
			cnt.Inc("probe_inner_calls_differ_from_reference")
		}
		cnt.Inc("reached_disk")
		if errClass(got.err) != errClass(want.err) || got.data != want.data {
			vs = append(vs, V{Class: "wrong-result", Detail: fmt.Sprintf("%s(%q,%q) root %q fault %q: got (%s, %q), reference (%s, %q)", o.Op, o.P1, o.P2, c.Root, o.Fault,
				errClass(got.err), core.Trunc(got.data, 80), errClass(want.err), core.Trunc(want.data, 80)), Step: step})
		}
		if o.Fault != "" && faultUsed && got.err == nil && o.Op != "RemoveAll" {
			vs = append(vs, V{Class: "fault-swallowed", Detail: fmt.Sprintf("%s(%q): injected %s did not come back as an error", o.Op, o.P1, o.Fault), Step: step})
		}
	}
	// the two disks must end identical: nothing outside was touched, everything inside
	// changed exactly as the reference says
	a, b := disk.Snapshot(), shadow.Snapshot()
	for _, k := range core.SortedKeys(a) {
		if b[k] != a[k] {
			vs = append(vs, V{Class: "disk-diverged", Detail: fmt.Sprintf("root %q: %q is %q on the real disk, reference %q", c.Root, k, core.Trunc(a[k], 60), core.Trunc(b[k], 60)), Step: len(c.Ops)})
			break
		}
	}
	for _, k := range core.SortedKeys(b) {
		if _, ok := a[k]; !ok {
			vs = append(vs, V{Class: "disk-diverged", Detail: fmt.Sprintf("root %q: %q missing on the real disk", c.Root, k), Step: len(c.Ops)})
			break
		}
	}
	return vs
}
