#!/bin/bash
# baseline-compare.sh [repo] : runs the repository's own test suite (guard off) and checks
# that every test of the pinned baseline's stable set still passes.
REPO=${1:-/repo}
export GOFLAGS=-mod=mod GOPROXY=off GOSUMDB=off
OUT=$(mktemp /var/tmp/baseline.XXXXXX.json)
(cd $REPO && go test -json -vet=off -count=1 -timeout 25m ./... > $OUT 2>/dev/null)
python3 - $OUT <<'P'
import json,sys,ast
b=json.load(open('/root/.vp/BASELINE.json'))
st=b['stable_pass']; st=set(ast.literal_eval(st) if isinstance(st,str) else st)
ok=set()
for l in open(sys.argv[1]):
    try: e=json.loads(l)
    except Exception: continue
    if e.get('Action')=='pass' and e.get('Test'): ok.add(e['Package']+'::'+e['Test'])
miss=sorted(st-ok)
print("stable baseline tests: %d, passing now: %d, missing: %d"%(len(st),len(st&ok),len(miss)))
for m in miss[:40]: print("  MISSING",m)
sys.exit(1 if miss else 0)
P
rc=$?; rm -f $OUT; exit $rc
