#!/bin/bash
# selftest.sh [mutant-name-prefix ...] — sensitivity self-test: apply each patch of
# /verif/mutants (or /verif/seeded/*/patch.diff with -s) to /repo, run the quick check of
# the property it targets, expect exit 1, and restore the tree.  Never leaves /repo dirty.
cd "$(dirname "$0")"
REPO=${VERIF_REPO:-/repo}
if ! git -C "$REPO" diff --quiet; then echo "refusing: $REPO has uncommitted changes" >&2; exit 2; fi
declare -A B=( [C05]=25 [C06]=25 [C07]=30 [C18]=15 [C19]=45 )
files=()
if [ "${1:-}" = "-s" ]; then shift; for d in seeded/*/; do files+=("$d/patch.diff"); done; else for f in mutants/*.patch; do files+=("$f"); done; fi
for f in "${files[@]}"; do
  name=$(basename "$(dirname "$f")"); [ "$name" = mutants ] && name=$(basename "$f" .patch)
  if [ $# -gt 0 ]; then ok=0; for p in "$@"; do [[ $name == $p* ]] && ok=1; done; [ $ok = 1 ] || continue; fi
  if [ -f "$(dirname "$f")/meta.json" ] && [ "$(basename "$f")" = patch.diff ]; then prop=$(python3 -c "import json;print(json.load(open('$(dirname "$f")/meta.json'))['property'])"); else prop=C${name:1:2}; fi
  git -C "$REPO" apply "$(realpath "$f")" || { echo "$name: patch does not apply"; continue; }
  t0=$(date +%s)
  out=$(VERIF_BUDGET_S=${SELFTEST_BUDGET:-${B[$prop]}} ./check $prop quick 2>&1); rc=$?
  git -C "$REPO" checkout -- . ; git -C "$REPO" clean -fdq
  first=$(echo "$out" | grep -A1 '^VIOLATION' | grep detail | head -1 | cut -c1-160)
  [ $rc = 2 ] && first=$(echo "$out" | grep HARNESS | head -1 | cut -c1-200)
  printf '%-44s %s rc=%d %3ds %s\n' "$name" "$prop" $rc $(( $(date +%s)-t0 )) "$first"
done
